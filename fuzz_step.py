#!/usr/bin/env python3
"""C12 thorough step: coverage-guided libFuzzer runs (cargo +nightly fuzz, AddressSanitizer) of the parser entry
points, seeded with the crash_shards corpus. libFuzzer is used as a workload generator; the oracles are the panic /
abort / sanitizer report that ends a fuzzing process, and libFuzzer's own rss limit.

  fuzz_step.py --secs N [--targets a,b] --seed S --tier T --property P --out FILE --tmpdir DIR
Writes an engine-style result JSON (evaluations = executions reported by libFuzzer)."""
import glob, json, os, re, shutil, subprocess, sys, time

ROOT = os.path.dirname(os.path.abspath(__file__))
FUZZ = os.path.join(ROOT, "harness", "fuzz")
TARGET = os.path.join(ROOT, "target", "fuzz")
MAXLEN = {"udp_request": 8192, "udp_response": 8192, "http_request_bytes": 2048, "http_get_path": 2048, "http_response": 65536,
          "ws_in_text": 65536, "ws_in_binary": 65536, "ws_out": 65536}


def arg(name, default=None):
    a = sys.argv
    return a[a.index("--" + name) + 1] if "--" + name in a else default


def main():
    secs = int(arg("secs", "60"))
    seed = int(arg("seed", "1"))
    out = arg("out", "/dev/stdout")
    tmp = arg("tmpdir", os.path.join(ROOT, "evidence", "tmp"))
    targets = (arg("targets") or ",".join(MAXLEN)).split(",")
    t0 = time.time()
    res = {"engine": "fuzz_step", "evaluations": 0, "distinct_nontrivial": 0,
           "rule": "libFuzzer (coverage-guided, AddressSanitizer, overflow checks and debug assertions on) over the parser entry points, seeded with the crash_shards corpus; an evaluation is one execution of the target; distinct = size of the final coverage-increasing corpus",
           "samples": [], "violations": [], "inconclusive": [], "counters": {}, "notes": [], "extra": {}}

    def finish():
        res["wall_s"] = time.time() - t0
        json.dump(res, open(out, "w") if out != "/dev/stdout" else sys.stdout, indent=1)
        sys.exit(1 if res["violations"] else (2 if res["inconclusive"] else 0))

    work = os.path.join(tmp, "fuzz")
    shutil.rmtree(work, ignore_errors=True)
    os.makedirs(work)
    env = dict(os.environ, CARGO_TARGET_DIR=TARGET, CARGO_NET_OFFLINE="true")
    replay = arg("replay")
    if replay:
        # re-execute one recorded input against the current tree: libFuzzer runs a file argument once and exits
        case = json.load(open(replay))
        t = case["target"]
        inp = os.path.join(work, "replay_input")
        open(inp, "wb").write(open(case["artifact"], "rb").read() if os.path.exists(case.get("artifact", "")) else bytes.fromhex(case["input_hex"]))
        shutil.copy("/repo/Cargo.lock", os.path.join(FUZZ, "Cargo.lock"))
        b = subprocess.run(["cargo", "+nightly", "fuzz", "build", "--fuzz-dir", FUZZ, "--release", "--debug-assertions", t], cwd=FUZZ, env=env, stdout=subprocess.PIPE, stderr=subprocess.STDOUT, text=True)
        if b.returncode != 0:
            res["inconclusive"].append("cargo fuzz build failed")
            finish()
        r = subprocess.run([os.path.join(TARGET, "x86_64-unknown-linux-gnu", "release", t), inp, "-timeout=60", "-rss_limit_mb=2048"], stdout=subprocess.PIPE, stderr=subprocess.STDOUT, text=True, env=dict(os.environ, ASAN_OPTIONS="detect_leaks=0"))
        print(r.stdout[-3000:])
        res["evaluations"] = 1
        if r.returncode != 0:
            res["violations"].append({"signature": case.get("signature", "fuzz.%s.crash" % t), "clause": "crash", "occurrences": 1, "detail": "target %s still fails on the recorded input (rc %d)" % (t, r.returncode), "replay": case})
        finish()
    # 1. seed corpus from the structure-aware generators
    cs = os.path.join(ROOT, "target", "verif", "crash_shards")
    r = subprocess.run([cs, "--dump_corpus", os.path.join(work, "corpus"), "--cases", "300", "--seed", str(seed)], capture_output=True, text=True)
    if r.returncode != 0:
        res["inconclusive"].append("seed corpus could not be produced: " + r.stderr[-300:])
        finish()
    # 2. build (cargo-fuzz rejects --offline: offline mode comes from .cargo/config.toml and the environment)
    shutil.copy("/repo/Cargo.lock", os.path.join(FUZZ, "Cargo.lock"))
    b = subprocess.run(["cargo", "+nightly", "fuzz", "build", "--fuzz-dir", FUZZ, "--release", "--debug-assertions"], cwd=FUZZ, env=env, stdout=subprocess.PIPE, stderr=subprocess.STDOUT, text=True)
    if b.returncode != 0:
        open(os.path.join(tmp, "fuzz.build.log"), "w").write(b.stdout)
        res["inconclusive"].append("cargo fuzz build failed, log %s" % os.path.join(tmp, "fuzz.build.log"))
        finish()
    bindir = os.path.join(TARGET, "x86_64-unknown-linux-gnu", "release")
    # 3. run all targets side by side
    forks = max(1, 16 // len(targets))
    procs = []
    for t in targets:
        art = os.path.join(work, "artifacts", t) + "/"
        os.makedirs(art)
        corpus = os.path.join(work, "corpus", t)
        log = open(os.path.join(work, t + ".log"), "w")
        cmd = [os.path.join(bindir, t), corpus, "-max_total_time=%d" % secs, "-timeout=10", "-rss_limit_mb=2048", "-max_len=%d" % MAXLEN[t], "-len_control=0",
               "-artifact_prefix=" + art, "-seed=%d" % (seed * 1000 + len(procs)), "-fork=%d" % forks, "-ignore_crashes=0", "-print_final_stats=1"]
        procs.append((t, subprocess.Popen(cmd, stdout=log, stderr=subprocess.STDOUT, env=dict(os.environ, ASAN_OPTIONS="detect_leaks=0")), art, os.path.join(work, t + ".log")))
    for t, p, art, logp in procs:
        try:
            rc = p.wait(timeout=secs + 300)
        except subprocess.TimeoutExpired:
            p.kill()
            rc = -9
            res["inconclusive"].append("%s: fuzzing process did not end %d s after its time budget" % (t, 300))
        text = open(logp, errors="replace").read()
        execs = [int(x) for x in re.findall(r"^#(\d+):", text, re.M)] or [int(x) for x in re.findall(r"^#(\d+)\s", text, re.M)]
        n = max(execs) if execs else 0
        res["evaluations"] += n
        res["counters"]["%s.executions" % t] = n
        cov = re.findall(r"cov: (\d+)", text)
        res["counters"]["%s.coverage_edges" % t] = int(cov[-1]) if cov else 0
        corp = re.findall(r"corp: (\d+)", text)
        res["counters"]["%s.corpus" % t] = int(corp[-1]) if corp else 0
        res["distinct_nontrivial"] += int(corp[-1]) if corp else 0
        arts = sorted(glob.glob(art + "*"))
        for a in arts:
            kind = os.path.basename(a).split("-")[0]
            keep = os.path.join(ROOT, "evidence", "replay", "C12-fuzz-%s-%s" % (t, os.path.basename(a)[:40]))
            os.makedirs(os.path.dirname(keep), exist_ok=True)
            if kind != "timeout":
                shutil.copy(a, keep)
            if kind == "timeout":
                # a wall-clock limit is no verdict (and libFuzzer's fork mode also writes such files for jobs it interrupts at
                # the end of the time budget); C12 does not speak about running time. Counted, kept, not judged.
                res["counters"]["%s.timeout_artifacts_not_judged" % t] = res["counters"].get("%s.timeout_artifacts_not_judged" % t, 0) + 1
                continue
            why = re.findall(r"(panicked at [^\n]*\n[^\n]*|ERROR: AddressSanitizer[^\n]*|ERROR: libFuzzer: out-of-memory[^\n]*|deadly signal[^\n]*)", text)
            sig = "fuzz.%s.%s" % (t, {"crash": "crash", "oom": "alloc_unbounded", "leak": "leak"}.get(kind, kind))
            if not any(v["signature"] == sig for v in res["violations"]):
                res["violations"].append({"signature": sig, "clause": "crash", "occurrences": 1,
                                          "detail": "libFuzzer target %s ended with a %s artifact (%d bytes): %s" % (t, kind, os.path.getsize(a), (why[0] if why else "see log")[:300]),
                                          "replay": {"engine": "fuzz_step.py", "signature": sig, "target": t, "artifact": keep, "input_hex": open(a, "rb").read()[:4096].hex()}})
        if n == 0 and not arts:
            res["inconclusive"].append("%s: no executions reported (rc %s), log %s" % (t, rc, logp))
    res["notes"].append("%d targets x %d fork jobs for %d s each" % (len(targets), forks, secs))
    finish()


if __name__ == "__main__":
    main()
