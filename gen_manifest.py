#!/usr/bin/env python3
"""Regenerates MANIFEST.json from plan.py (checks) + the static parts below."""
import json, os, subprocess, sys
ROOT = os.path.dirname(os.path.abspath(__file__))
sys.path.insert(0, ROOT)
import plan

props = [json.loads(l) for l in open(os.path.join(ROOT, "properties.jsonl"))]
ids = [p["id"] for p in props]

hook_commits = subprocess.run(["git", "-C", "/repo", "log", "--format=%H %s"], capture_output=True, text=True).stdout.splitlines()
hook_commits = [l.split()[0] for l in hook_commits if " verif hooks:" in l]
hook_commits.reverse()

BASE = "cd /repo && cargo nextest run --workspace --no-fail-fast --test-threads 8 --offline"

checks = []
for pid in ids:
    if pid not in plan.PLANS:
        continue
    s = plan.PLANS[pid]
    checks.append({
        "property_id": pid,
        "quick_cmd": "./check %s quick" % pid,
        "thorough_cmd": "./check %s thorough" % pid,
        "evidence_file": "/verif/evidence/%s.json" % pid,
        "replay_cmd_template": "./check %s --replay {path}" % pid,
        "engine": s["engine"],
        "level_claimed": {"category": s["level"], "text": s["level_text"], "design_ref": "DESIGN.md section " + s["design_ref"]},
        "level_note": s["level_note"],
        "technique": s["technique"],
    })

na = []
for pid in ids:
    if pid not in plan.PLANS:
        reason = plan.NOT_APPLICABLE.get(pid) if hasattr(plan, "NOT_APPLICABLE") else None
        na.append({"property_id": pid, "reason": reason or "check not built yet in this session; see DESIGN.md for the intended monitor"})

manifest = {
    "version": 1,
    "setup_cmd": "./check --build",
    "hooks": {
        "guard": "--cfg aquatic_verif",
        "enable": "RUSTFLAGS='--cfg aquatic_verif' passed by ./check to cargo when it builds /verif/harness (path dependencies on /repo/crates/*)",
        "baseline_off_cmd": BASE,
        "source_commits": hook_commits,
        "add_only": True,
    },
    "engines": plan.ENGINES if hasattr(plan, "ENGINES") else [],
    "checks": checks,
    "notes": "Runtime monitoring and sanitizers only; every verdict is an oracle observing executions of the real code built from /repo's working tree. Exit 2 = inconclusive (never folded into held/violated). Known findings: /verif/known_findings.json.",
    "not_applicable": na,
}
json.dump(manifest, open(os.path.join(ROOT, "MANIFEST.json"), "w"), indent=1)
print("checks:", [c["property_id"] for c in checks], "not claimed:", [n["property_id"] for n in na])
