#!/opt/veriftools/pyvenv/bin/python
import json, jsonschema, sys, glob
jsonschema.validate(json.load(open('/verif/MANIFEST.json')), json.load(open('/root/.vp/MANIFEST.schema.json')))
print('manifest valid')
sch = json.load(open('/root/.vp/EVIDENCE.schema.json'))
for f in sorted(glob.glob('/verif/evidence/C*.json')):
    try:
        jsonschema.validate(json.load(open(f)), sch); print(f, 'valid')
    except Exception as e:
        print(f, 'INVALID', str(e)[:300])
