#!/bin/bash
# usage: confirm_seeded.sh <seeded dir name, e.g. C07 or C07b> <crate dir> [rustflags] [worktree]
#   confirms a seeded change in its scratch worktree (default /tmp/wt_<id>; round two: /tmp/wt2_<id without b>)
id=$1; crate=$2; flags=$3
wt=${4:-/tmp/wt_$id}
cd $wt || exit 1
git checkout -q -- .
mkdir -p $wt/crates/$crate/tests
cp /verif/seeded/$id/seeded_demo.rs $wt/crates/$crate/tests/seeded_demo.rs
pkg=$(grep -m1 '^name' $wt/crates/$crate/Cargo.toml | sed 's/.*"\(.*\)"/\1/')
git apply /verif/seeded/$id/patch.diff || { echo "PATCH DOES NOT APPLY"; exit 1; }
echo "--- with change: existing suite (jobs limited: the udp socket tests are timing sensitive under load)"
cargo nextest run --workspace --offline --no-fail-fast --cargo-profile test-fast -j 4 -E 'not binary(seeded_demo)' 2>&1 | grep -E "Summary|FAIL" | head -5
echo "--- with change: demo (expect failure)"
RUSTFLAGS="$flags" cargo nextest run --offline --no-fail-fast --cargo-profile test-fast -p $pkg $DEMO_ARGS -E 'binary(seeded_demo)' 2>&1 | grep -E "Summary|FAIL" | head -5
git apply -R /verif/seeded/$id/patch.diff
echo "--- without change: demo (expect pass)"
RUSTFLAGS="$flags" cargo nextest run --offline --no-fail-fast --cargo-profile test-fast -p $pkg $DEMO_ARGS -E 'binary(seeded_demo)' 2>&1 | grep -E "Summary|FAIL" | head -5
git status --short | head -5
