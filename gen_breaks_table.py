#!/usr/bin/env python3
"""Renders selftest_results.json + seeded/*/meta.json into the 'which check catches which change' table of DESIGN.md
(between the BREAKS-TABLE markers)."""
import glob, json, os, re
ROOT = os.path.dirname(os.path.abspath(__file__))
res = json.load(open(os.path.join(ROOT, "selftest_results.json")))
byname = {r["name"]: r for r in res["results"]}
rows = []
def what(path):
    for line in open(path):
        if line.startswith("# what:") or line.startswith("# change:") or line.startswith("# description:"):
            return line.split(":", 1)[1].strip()
    return ""
for f in sorted(glob.glob(os.path.join(ROOT, "mutants", "*.diff")) + glob.glob(os.path.join(ROOT, "mutants", "neutral", "*.diff"))):
    neutral = "/neutral/" in f
    name = ("NEUTRAL_" if neutral else "") + os.path.basename(f)[:-5]
    r = byname.get(name)
    files = sorted(set(re.findall(r"^\+\+\+ b/(\S+)", open(f).read(), re.M)))
    rows.append((r["property"] if r else "?", "neutral patch" if neutral else "mutant", name.replace("NEUTRAL_", ""), ", ".join(x.replace("crates/", "") for x in files), r))
for d in sorted(glob.glob(os.path.join(ROOT, "seeded", "*"))):
    mp = os.path.join(d, "meta.json")
    if not os.path.exists(mp):
        continue
    m = json.load(open(mp))
    name = "seeded_" + os.path.basename(d)
    files = sorted(set(re.findall(r"^\+\+\+ b/(\S+)", open(os.path.join(d, "patch.diff")).read(), re.M)))
    rows.append((m["property"], "sub-agent", os.path.basename(d) + ": " + re.sub(r"\s+", " ", m["summary"])[:150] + "…", ", ".join(x.replace("crates/", "") for x in files), byname.get(name)))
rows.sort(key=lambda r: (r[0], r[1] != "mutant", r[2]))
out = ["| property | origin | change | touches | outcome of `./check <id> quick` | signatures that fired |", "|---|---|---|---|---|---|"]
for prop, origin, name, files, r in rows:
    if r is None:
        oc, sig = "not run yet", ""
    else:
        oc = r["outcome"]
        if origin == "neutral patch":
            oc = {"MISSED": "silent (required)", "caught": "FALSE ALARM"}.get(oc, oc)
        sig = ", ".join("`%s`" % s.split(":")[0] for s in r.get("signatures", [])[:3])
    out.append("| %s | %s | %s | %s | %s | %s |" % (prop, origin, name.replace("|", "/"), files, oc, sig))
n_m = sum(1 for r in rows if r[1] == "mutant"); c_m = sum(1 for r in rows if r[1] == "mutant" and r[4] and r[4]["outcome"] == "caught")
n_s = sum(1 for r in rows if r[1] == "sub-agent"); c_s = sum(1 for r in rows if r[1] == "sub-agent" and r[4] and r[4]["outcome"] == "caught")
out.append("")
out.append("Totals over the merged selftest runs (each case at the last run that included it; latest repo HEAD %s): %d/%d mutants caught, %d/%d sub-agent changes caught, neutral patches silent: %s." % (
    res["head"][:7], c_m, n_m, c_s, n_s, all(r[4] and r[4]["outcome"] == "MISSED" for r in rows if r[1] == "neutral patch")))
p = os.path.join(ROOT, "DESIGN.md")
s = open(p).read()
a, b = "<!-- BREAKS-TABLE:BEGIN -->", "<!-- BREAKS-TABLE:END -->"
assert a in s and b in s
s = s[:s.index(a) + len(a)] + "\n" + "\n".join(out) + "\n" + s[s.index(b):]
open(p, "w").write(s)
print("rows", len(rows))
