"""Which engines run for which property, per tier. Read by ./check and gen_manifest.py."""

ALL_PACKAGES = ["vudp", "vhttp", "vws", "vproto"]
DEPLOY_PACKAGES = []


def shards(name, binary, n, args, **kw):
    out = []
    for i in range(n):
        s = {"name": "%s_s%d" % (name, i), "bin": binary, "args": list(args) + ["--shard", str(i)]}
        s.update(kw)
        out.append(s)
    return out


def udp_swarm_steps(tier, extra=None):
    extra = extra or []
    if tier == "quick":
        return [{"name": "udp_swarm", "bin": "udp_swarm", "args": ["--histories", "20000", "--budget_s", "25"] + extra}]
    return shards("udp_swarm", "udp_swarm", 16, ["--histories", "100000000", "--budget_s", "110"] + extra)


PLANS = {}

PLANS["C01"] = {
    "title": "UDP swarm bookkeeping equals a reference tracker",
    "level": "exploration",
    "engine": "swarm_diff",
    "technique": "differential runtime monitor: real udp TorrentMaps vs reference model after every operation of random histories",
    "packages": ["vudp"],
    "parallel": 16,
    "steps": lambda tier, seed: udp_swarm_steps(tier),
    "min_evaluations": {"quick": 50000, "thorough": 1000000},
    "assumptions": [
        "sequential histories only (C04 covers concurrency)",
        "reference model written from the property statement (vcore::model)",
    ],
    "level_text": "Exploration: the storage API of the UDP tracker is driven through random announce/scrape/clean histories (both families, IPv4-mapped sources, all events, extreme left/numwant, inline<->heap switches in both directions) and every reply, the hand-out set seen by an observer announce and the torrent totals are compared with a reference model after each operation. Holds on the executions observed, not a proof.",
    "level_note": "Trusted: the reference model (about 150 lines), the harness's independent address canonicalisation, rustc. Sequential only.",
    "design_ref": "3/C01",
}
