"""Which engines run for which property, per tier. Read by ./check and gen_manifest.py."""

ALL_PACKAGES = ["vudp", "vhttp", "vws", "vproto"]
DEPLOY_PACKAGES = []


def shards(name, binary, n, args, **kw):
    out = []
    for i in range(n):
        s = {"name": "%s_s%d" % (name, i), "bin": binary, "args": list(args) + ["--shard", str(i)]}
        s.update(kw)
        out.append(s)
    return out


def udp_swarm_steps(tier, extra=None):
    extra = extra or []
    if tier == "quick":
        return [{"name": "udp_swarm", "bin": "udp_swarm", "args": ["--histories", "20000", "--budget_s", "25"] + extra}]
    return shards("udp_swarm", "udp_swarm", 16, ["--histories", "100000000", "--budget_s", "110"] + extra)


PLANS = {}

PLANS["C01"] = {
    "title": "UDP swarm bookkeeping equals a reference tracker",
    "level": "exploration",
    "engine": "swarm_diff",
    "technique": "differential runtime monitor: real udp TorrentMaps vs reference model after every operation of random histories",
    "packages": ["vudp"],
    "parallel": 16,
    "steps": lambda tier, seed: udp_swarm_steps(tier),
    "min_evaluations": {"quick": 50000, "thorough": 1000000},
    "assumptions": [
        "sequential histories only (C04 covers concurrency)",
        "reference model written from the property statement (vcore::model)",
    ],
    "level_text": "Exploration: the storage API of the UDP tracker is driven through random announce/scrape/clean histories (both families, IPv4-mapped sources, all events, extreme left/numwant, inline<->heap switches in both directions) and every reply, the hand-out set seen by an observer announce and the torrent totals are compared with a reference model after each operation. Holds on the executions observed, not a proof.",
    "level_note": "Trusted: the reference model (about 150 lines), the harness's independent address canonicalisation, rustc. Sequential only.",
    "design_ref": "3/C01",
}


def swarm_steps(name, binary, tier, extra=None, quick_budget=25):
    extra = extra or []
    if tier == "quick":
        return [{"name": name, "bin": binary, "args": ["--histories", "20000", "--budget_s", str(quick_budget)] + extra}]
    return shards(name, binary, 16, ["--histories", "100000000", "--budget_s", "110"] + extra)


PLANS["C07"] = {
    "title": "HTTP swarm bookkeeping equals a reference tracker",
    "level": "exploration",
    "engine": "swarm_diff",
    "technique": "differential runtime monitor: real http swarm-worker TorrentMaps (mock clock) vs reference model after every operation of random histories",
    "packages": ["vhttp"],
    "parallel": 16,
    "steps": lambda tier, seed: swarm_steps("http_swarm", "http_swarm", tier),
    "min_evaluations": {"quick": 50000, "thorough": 1000000},
    "assumptions": ["sequential histories on one swarm worker (C16 covers routing across workers)", "reference model vcore::model"],
    "level_text": "Exploration: the HTTP swarm worker's storage is driven through random announce/scrape/clean histories (both families, mapped sources, all events, numwant absent/0/n, inline(<=4)<->heap switches, repeated hashes, scrapes beyond max_scrape_torrents, stops on unknown torrents) under a mock clock and compared with the reference model after every operation, including the stored torrent count after each clean.",
    "level_note": "Trusted: the reference model, the re-export hook (verif_api) exposing the otherwise private storage module unchanged, the mock clock hook.",
    "design_ref": "3/C07",
}

PLANS["C08"] = {
    "title": "WebTorrent swarm bookkeeping and per-connection ownership of peers",
    "level": "exploration",
    "engine": "swarm_diff",
    "technique": "differential runtime monitor: real ws swarm-worker TorrentMaps vs reference model with connection ownership (coinciding per-worker connection keys)",
    "packages": ["vws"],
    "parallel": 16,
    "steps": lambda tier, seed: swarm_steps("ws_swarm", "ws_swarm", tier),
    "min_evaluations": {"quick": 50000, "thorough": 1000000},
    "assumptions": ["storage level: connection-closed events carry exactly the pairs the closing connection owns in the model; what a real socket worker retracts is decided on the live tracker (C17 engine)"],
    "level_text": "Exploration: random histories of announces (all events, left absent/0/positive, offers, answers), scrapes, connection closes and cleans from connections on two socket workers whose slot-map keys coincide, checked after every operation against a reference tracker with per-connection ownership.",
    "level_note": "Trusted: reference model vcore::wsmodel, storage re-export hook, mock clock hook.",
    "design_ref": "3/C08",
}

PLANS["C09"] = {
    "title": "WebRTC offers and answers are relayed only along real, unused offers",
    "level": "exploration",
    "engine": "swarm_diff",
    "technique": "differential runtime monitor over emitted OutMessages: offer fan-out and answer relay vs reference model of outstanding (receiver, offer id) expectations",
    "packages": ["vws"],
    "parallel": 16,
    "steps": lambda tier, seed: swarm_steps("ws_swarm", "ws_swarm", tier),
    "min_evaluations": {"quick": 50000, "thorough": 1000000},
    "assumptions": ["two situations the statement leaves open are don't-care (either forward to the offerer or error to the answerer): same offer id forwarded twice to one receiver; offerer left and re-announced since the forward"],
    "level_text": "Exploration: every OutMessage emitted by the real storage for announces with 0..6 offers and/or an answer is checked against the reference model: number, order, labels, distinct receivers and addressing of forwarded offers; answers forwarded exactly when an expectation is outstanding (expired-but-uncleaned counts as outstanding), otherwise error to the answerer or nothing.",
    "level_note": "Trusted: reference model vcore::wsmodel; recipients are adopted from the observed legal choice.",
    "design_ref": "3/C09",
}
