"""Which engines run for which property, per tier. Read by ./check and gen_manifest.py."""

ALL_PACKAGES = ["vudp", "vhttp", "vws", "vproto"]
DEPLOY_PACKAGES = []


def shards(name, binary, n, args, **kw):
    out = []
    for i in range(n):
        s = {"name": "%s_s%d" % (name, i), "bin": binary, "args": list(args) + ["--shard", str(i)]}
        s.update(kw)
        out.append(s)
    return out


def udp_swarm_steps(tier, extra=None):
    extra = extra or []
    if tier == "quick":
        return [{"name": "udp_swarm", "bin": "udp_swarm", "args": ["--histories", "300000", "--budget_s", "25"] + extra}]
    return shards("udp_swarm", "udp_swarm", 16, ["--histories", "100000000", "--budget_s", "110"] + extra)


PLANS = {}

PLANS["C01"] = {
    "title": "UDP swarm bookkeeping equals a reference tracker",
    "level": "exploration",
    "engine": "swarm_diff",
    "technique": "differential runtime monitor: real udp TorrentMaps vs reference model after every operation of random histories",
    "packages": ["vudp"],
    "parallel": 16,
    "steps": lambda tier, seed: udp_swarm_steps(tier),
    "min_evaluations": {"quick": 30000, "thorough": 300000},
    "assumptions": [
        "sequential histories only (C04 covers concurrency)",
        "reference model written from the property statement (vcore::model)",
    ],
    "level_text": "Exploration: the storage API of the UDP tracker is driven through random announce/scrape/clean histories (both families, IPv4-mapped sources, all events, extreme left/numwant, inline<->heap switches in both directions) and every reply, the hand-out set seen by an observer announce and the torrent totals are compared with a reference model after each operation. Holds on the executions observed, not a proof.",
    "level_note": "Trusted: the reference model (about 150 lines), the harness's independent address canonicalisation, rustc. Sequential only.",
    "design_ref": "3/C01",
}


def swarm_steps(name, binary, tier, extra=None, quick_budget=25):
    extra = extra or []
    if tier == "quick":
        return [{"name": name, "bin": binary, "args": ["--histories", "300000", "--budget_s", str(quick_budget)] + extra}]
    return shards(name, binary, 16, ["--histories", "100000000", "--budget_s", "110"] + extra)


PLANS["C07"] = {
    "title": "HTTP swarm bookkeeping equals a reference tracker",
    "level": "exploration",
    "engine": "swarm_diff",
    "technique": "differential runtime monitor: real http swarm-worker TorrentMaps (mock clock) vs reference model after every operation of random histories",
    "packages": ["vhttp"],
    "parallel": 16,
    "steps": lambda tier, seed: swarm_steps("http_swarm", "http_swarm", tier),
    "min_evaluations": {"quick": 30000, "thorough": 300000},
    "assumptions": ["sequential histories on one swarm worker (C16 covers routing across workers)", "reference model vcore::model"],
    "level_text": "Exploration: the HTTP swarm worker's storage is driven through random announce/scrape/clean histories (both families, mapped sources, all events, numwant absent/0/n, inline(<=4)<->heap switches, repeated hashes, scrapes beyond max_scrape_torrents, stops on unknown torrents) under a mock clock and compared with the reference model after every operation, including the stored torrent count after each clean.",
    "level_note": "Trusted: the reference model, the re-export hook (verif_api) exposing the otherwise private storage module unchanged, the mock clock hook.",
    "design_ref": "3/C07",
}

PLANS["C08"] = {
    "title": "WebTorrent swarm bookkeeping and per-connection ownership of peers",
    "level": "exploration",
    "engine": "swarm_diff",
    "technique": "differential runtime monitor: real ws swarm-worker TorrentMaps vs reference model with connection ownership (coinciding per-worker connection keys)",
    "packages": ["vws"],
    "parallel": 16,
    "steps": lambda tier, seed: swarm_steps("ws_swarm", "ws_swarm", tier),
    "min_evaluations": {"quick": 30000, "thorough": 300000},
    "assumptions": ["storage level: connection-closed events carry exactly the pairs the closing connection owns in the model; what a real socket worker retracts is decided on the live tracker (C17 engine)"],
    "level_text": "Exploration: random histories of announces (all events, left absent/0/positive, offers, answers), scrapes, connection closes and cleans from connections on two socket workers whose slot-map keys coincide, checked after every operation against a reference tracker with per-connection ownership.",
    "level_note": "Trusted: reference model vcore::wsmodel, storage re-export hook, mock clock hook.",
    "design_ref": "3/C08",
}

PLANS["C09"] = {
    "title": "WebRTC offers and answers are relayed only along real, unused offers",
    "level": "exploration",
    "engine": "swarm_diff",
    "technique": "differential runtime monitor over emitted OutMessages: offer fan-out and answer relay vs reference model of outstanding (receiver, offer id) expectations",
    "packages": ["vws"],
    "parallel": 16,
    "steps": lambda tier, seed: swarm_steps("ws_swarm", "ws_swarm", tier),
    "min_evaluations": {"quick": 30000, "thorough": 300000},
    "assumptions": ["two situations the statement leaves open are don't-care (either forward to the offerer or error to the answerer): same offer id forwarded twice to one receiver; offerer left and re-announced since the forward"],
    "level_text": "Exploration: every OutMessage emitted by the real storage for announces with 0..6 offers and/or an answer is checked against the reference model: number, order, labels, distinct receivers and addressing of forwarded offers; answers forwarded exactly when an expectation is outstanding (expired-but-uncleaned counts as outstanding), otherwise error to the answerer or nothing.",
    "level_note": "Trusted: reference model vcore::wsmodel; recipients are adopted from the observed legal choice.",
    "design_ref": "3/C09",
}

PLANS["C02"] = {
    "title": "Peer lists are sound, bounded and never contain the requester",
    "level": "exploration",
    "engine": "select_enum",
    "technique": "runtime predicate monitor over real peer-selection code; scripted RNG enumerates every offset outcome (http, ws), SmallRng sweep with inferred offsets (udp); plus the predicate embedded in the three swarm_diff engines",
    "packages": ["vudp", "vhttp", "vws"],
    "parallel": 8,
    "steps": lambda tier, seed: [
        {"name": "udp_select", "bin": "udp_select", "args": []},
        {"name": "http_select", "bin": "http_select", "args": []},
        {"name": "ws_select", "bin": "ws_select", "args": []},
    ] + (swarm_steps("udp_swarm", "udp_swarm", "quick", quick_budget=8) + swarm_steps("http_swarm", "http_swarm", "quick", quick_budget=8) + swarm_steps("ws_swarm", "ws_swarm", "quick", quick_budget=8)
         if tier == "quick" else
         shards("udp_swarm", "udp_swarm", 4, ["--histories", "100000000", "--budget_s", "100"]) + shards("http_swarm", "http_swarm", 4, ["--histories", "100000000", "--budget_s", "100"]) + shards("ws_swarm", "ws_swarm", 4, ["--histories", "100000000", "--budget_s", "100"])),
    "min_evaluations": {"quick": 200000, "thorough": 1000000},
    "assumptions": ["udp takes a concrete SmallRng: offsets are swept and inferred, full coverage of offset pairs is required only for requester-absent cases up to size 16 (inconclusive otherwise)",
                    "scripted RNG relies on rand's range sampling; self-checked at start-up (inconclusive if it fails)"],
    "level_text": "Exploration, exhaustive over the RNG for small sizes: for every swarm size up to 40 (130 thorough), every limit 0..size+3 and the requester absent or at every insertion index, the real selection code of all three trackers is run for every outcome of both random offsets (scripted RNG; udp by seed sweep) and each returned list is checked with the pure predicate of the statement; the same predicate runs inside the random-history engines with decoy torrents and the other family populated.",
    "level_note": "Trusted: the predicate (vcore::model::check_peer_list and the ws variant), the scripted RNG self-check.",
    "design_ref": "3/C02",
}

PLANS["C13"] = {
    "title": "UDP wire codec conforms to BEP 15 and round-trips",
    "level": "exploration",
    "engine": "codec_diff",
    "technique": "differential runtime monitor: aquatic_udp_protocol writer/parser vs independent BEP 15 reference codec on boundary-crossed and random messages, rejection table, scrape-cut grid",
    "packages": ["vproto"],
    "parallel": 16,
    "steps": lambda tier, seed: ([{"name": "codec_udp", "bin": "codec_udp", "args": ["--messages", "300000", "--budget_s", "20"]}] if tier == "quick"
                                 else shards("codec_udp", "codec_udp", 16, ["--messages", "100000000", "--budget_s", "100"])),
    "min_evaluations": {"quick": 300000, "thorough": 2000000},
    "assumptions": ["reference codec written from the BEP 15 tables (vproto::refudp)", "reply ports are >= 1 in generated replies"],
    "level_text": "Exploration: every message kind with boundary values (0, +-1, MIN, MAX) and random fill is written by the crate and compared byte for byte with an independent BEP 15 encoder, reference bytes are parsed by the crate and compared field by field (announces with 0..64 extension bytes; replies of both families with 0..300 peers), every truncation length / unknown action / event / protocol id bit / port 0 / empty or ragged hash list must be rejected with the request's own ids where answerable, and the scrape cut is checked for every limit 0..255 x count.",
    "level_note": "Trusted: the reference codec (about 250 lines of explicit offsets).",
    "design_ref": "3/C13",
}

PLANS["C14"] = {
    "title": "HTTP wire codec: requests round-trip, replies are canonical bencode",
    "level": "exploration",
    "engine": "codec_diff",
    "technique": "differential runtime monitor: aquatic_http_protocol vs reference query-string writer/identifier decoder and independent canonical bencode encoder + strict decoder",
    "packages": ["vproto"],
    "parallel": 16,
    "steps": lambda tier, seed: ([{"name": "codec_http", "bin": "codec_http", "args": ["--messages", "80000", "--budget_s", "20"]}] if tier == "quick"
                                 else shards("codec_http", "codec_http", 16, ["--messages", "100000000", "--budget_s", "100"])),
    "min_evaluations": {"quick": 100000, "thorough": 1000000},
    "assumptions": ["reply counters are generated up to i64::MAX (bencode integers are read back as i64 by the bundled client)", "keys are generated within the parser's documented 100-byte cap; longer keys must be rejected",
                    "raw '=' '&' '%' inside values are not well-formed and are always percent-encoded by the reference writer"],
    "level_text": "Exploration: library-written announce/scrape requests parse back equal for all events and optional fields; reference-written query strings in random parameter order with unknown keys and identifiers written raw (Latin-1), %xx or %XX parse to the intended values; identifier strings of nine classes (valid, 19/21 units, truncated or non-hex escapes, characters above U+00FF raw or as hex digits) are accepted iff they denote exactly 20 bytes; every reply is byte-identical to an independent canonical encoder, passes a strict decoder and parses back equal.",
    "level_note": "Trusted: reference writer/decoder and the strict bencode codec in vcore::bencode.",
    "design_ref": "3/C14",
}

PLANS["C15"] = {
    "title": "WebTorrent JSON codec round-trips; 20-byte ids are exact",
    "level": "exploration",
    "engine": "codec_diff",
    "technique": "round-trip runtime monitor over all message kinds (text and binary frames), independent JSON reader on emitted text, reference acceptance predicate for identifier strings",
    "packages": ["vproto"],
    "parallel": 16,
    "steps": lambda tier, seed: ([{"name": "codec_ws", "bin": "codec_ws", "args": ["--messages", "100000", "--budget_s", "20"]}] if tier == "quick"
                                 else shards("codec_ws", "codec_ws", 16, ["--messages", "100000000", "--budget_s", "100"])),
    "min_evaluations": {"quick": 100000, "thorough": 1000000},
    "assumptions": ["independent JSON reader vcore::json decides what the emitted text denotes"],
    "level_text": "Exploration: every InMessage/OutMessage kind with optional fields present, absent or null and hostile SDP text (quotes, backslashes, all C0 controls, U+2028/9, astral characters, up to 40 kB) survives to_ws_message/from_ws_message as text and as binary frame; hand-built JSON for null/missing fields and single/list/empty scrape hashes parses to the intended value; identifiers in emitted text are 20 characters <= U+00FF equal to the bytes; identifier strings of 0..40 characters with characters above U+00FF at every position are accepted iff exactly 20 characters <= U+00FF.",
    "level_note": "Trusted: vcore::json reader and the acceptance predicate.",
    "design_ref": "3/C15",
}

PLANS["C05"] = {
    "title": "UDP connection ids are bound to source IP and time window",
    "level": "exploration",
    "engine": "codec_diff",
    "technique": "runtime monitor: real ConnectionValidator with hooked clock vs reference predicate over integers on a boundary grid; forged ids re-tested against fresh keys (structural, not chance, acceptance)",
    "packages": ["vudp"],
    "parallel": 16,
    "steps": lambda tier, seed: ([{"name": "udp_validator", "bin": "udp_validator", "args": ["--rounds", "400000", "--budget_s", "20"]}] if tier == "quick"
                                 else shards("udp_validator", "udp_validator", 16, ["--rounds", "100000000", "--budget_s", "100"])),
    "min_evaluations": {"quick": 500000, "thorough": 5000000},
    "assumptions": ["the 2^-32 guessing bound is checked structurally: only an acceptance that persists across three fresh keys is a violation; first-stage chance acceptances are reported"],
    "level_text": "Exploration: for max_connection_age in {0,1,2,59,60,61,120,u32::MAX-1,u32::MAX} and issue/check times on a grid around every boundary (t_issue+age-1/+0/+1, t_check+60/+61, 0, near u32::MAX) the real validator (and a clone, as another socket worker holds) must agree with the reference predicate for ids checked from their own IP (any port, plain and IPv4-mapped forms); ids checked from other addresses, all 64 single-bit and sampled double-bit alterations, ids of a second validator instance and random ids must be rejected unless the acceptance fails to persist across fresh keys.",
    "level_note": "Trusted: the reference predicate; the verif_set_elapsed hook that sets the validator's private whole-second clock.",
    "design_ref": "3/C05",
}

PLANS["C12"] = {
    "title": "No network input can crash parsing or request handling",
    "level": "exploration",
    "engine": "crash_shards",
    "technique": "sharded child processes with write-ahead case log, catch_unwind on 2 MiB stacks and a counting allocator over structure-aware mutated inputs; handler field extremes inside the swarm_diff engines (overflow checks on)",
    "packages": ["vproto", "vudp", "vhttp", "vws"],
    "parallel": 4,
    "steps": lambda tier, seed: ([{"name": "crash_shards", "bin": "crash_shards", "args": ["--cases", "120000", "--budget_s", "50"], "timeout_s": 600}]
                                 + swarm_steps("udp_swarm", "udp_swarm", "quick", quick_budget=8) + swarm_steps("http_swarm", "http_swarm", "quick", quick_budget=8) + swarm_steps("ws_swarm", "ws_swarm", "quick", quick_budget=8)
                                 if tier == "quick" else
                                 [{"name": "crash_shards", "bin": "crash_shards", "args": ["--cases", "3000000", "--budget_s", "280"], "timeout_s": 1500}]
                                 + shards("udp_swarm", "udp_swarm", 2, ["--histories", "100000000", "--budget_s", "100"]) + shards("http_swarm", "http_swarm", 2, ["--histories", "100000000", "--budget_s", "100"]) + shards("ws_swarm", "ws_swarm", 2, ["--histories", "100000000", "--budget_s", "100"])),
    "min_evaluations": {"quick": 300000, "thorough": 2000000},
    "assumptions": ["reverse-proxy mode panics by design when the configured header is absent or unparsable; that path is excluded (deployment precondition)",
                    "allocation bound: peak live bytes during one call <= 512*len + 1 MiB (far above what the JSON tape and serde buffering legitimately need; measured ratio on accepted inputs is reported)"],
    "level_text": "Exploration with sanitizer-style oracles: eleven parser entry points receive valid messages and structure-aware mutations up to the real buffer sizes (8 KiB datagram, 2 KiB HTTP request, 64 KiB WebSocket message / reply); a panic, an abort of the child (stack overflow, allocation failure - attributed through the write-ahead log) or a peak allocation above the bound is a violation. Request handlers run with numwant=i32::MIN, negative left, max peers 0/1, port extremes inside the swarm_diff engines with overflow checks on.",
    "level_note": "Trusted: the counting allocator, catch_unwind, the process boundary. The live trackers are attacked with the same corpus in the live engines.",
    "design_ref": "3/C12",
}

PLANS["C04"] = {
    "title": "UDP shared swarm state is linearizable and deadlock-free",
    "level": "exploration",
    "engine": "sched",
    "technique": "serialised schedule enumeration at lock-gap probes (DFS over real executions) + free-running stress with delay injection, both decided by a per-torrent linearizability checker over recorded histories; progress watchdog with gdb backtraces for deadlock",
    "packages": ["vudp"],
    "parallel": 16,
    "steps": lambda tier, seed: ([{"name": "udp_sched", "bin": "udp_sched", "args": ["--max_leaves", "24000", "--budget_s", "45"], "timeout_s": 400},
                                  {"name": "udp_stress", "bin": "udp_stress", "args": ["--rounds", "3000", "--budget_s", "40"], "timeout_s": 400}] if tier == "quick" else
                                 [{"name": "udp_sched", "bin": "udp_sched", "args": ["--max_leaves", "2000000", "--budget_s", "500"], "timeout_s": 1500}]
                                 + shards("udp_stress", "udp_stress", 12, ["--rounds", "100000000", "--budget_s", "300"], timeout_s=1200)),
    "min_evaluations": {"quick": 300, "thorough": 3000},
    "assumptions": ["exhaustive only for the listed program shapes and at probe granularity (every shared access lies inside a critical section between two probes)",
                    "liveness restated as bounded progress: no 4 s stall with every thread released (enumeration), no 30 s stall under load (stress)"],
    "level_text": "Exploration, systematic for small programs: (1) twelve program templates of 2-3 threads x 1-3 operations (fresh torrent races, announce vs clean on an expired-only or stopped-empty torrent, stop/announce/clean, scrape vs announce, same key twice, inline<->heap switches raced with clean, two cleaners) are executed under every interleaving of their critical sections by parking threads at the probes; each leaf is a real execution whose replies, final scrape and observer read-out must be linearizable per torrent; a released thread that cannot reach its next probe is a forced switch, nobody runnable is a deadlock witness. (2) 6-12 free-running threads with injected yields/sleeps at the same probes, per-round histories checked by the same checker.",
    "level_note": "Trusted: the linearizability checker (vcore::lin), the probe placement rule (never inside a lock), the tick clock at the API boundary.",
    "design_ref": "3/C04",
}


def sweep_steps():
    return [{"name": "udp_sweep", "bin": "udp_swarm", "args": ["--mode", "sweep"]},
            {"name": "http_sweep", "bin": "http_swarm", "args": ["--mode", "sweep"]},
            {"name": "ws_sweep", "bin": "ws_swarm", "args": ["--mode", "sweep"]}]


PLANS["C10"] = {
    "title": "Peers and offers expire exactly at their deadline, never earlier",
    "level": "exploration",
    "engine": "swarm_diff",
    "technique": "deterministic boundary-grid runtime monitor (cleans at deadline-1 / deadline / deadline+1, all representations, re-announce offsets) plus the time component of the random-history differential engines, all three trackers, mock clock",
    "packages": ["vudp", "vhttp", "vws"],
    "parallel": 8,
    "steps": lambda tier, seed: sweep_steps() + (
        swarm_steps("udp_swarm", "udp_swarm", "quick", quick_budget=10) + swarm_steps("http_swarm", "http_swarm", "quick", quick_budget=10) + swarm_steps("ws_swarm", "ws_swarm", "quick", quick_budget=10)
        if tier == "quick" else
        shards("udp_swarm", "udp_swarm", 4, ["--histories", "100000000", "--budget_s", "100"]) + shards("http_swarm", "http_swarm", 4, ["--histories", "100000000", "--budget_s", "100"]) + shards("ws_swarm", "ws_swarm", 4, ["--histories", "100000000", "--budget_s", "100"])),
    "min_evaluations": {"quick": 200000, "thorough": 1000000},
    "assumptions": ["clock values stay below u32::MAX (136 years of uptime)", "deadline = the handling worker's time sample + max age, computed over mathematical integers in the reference"],
    "level_text": "Exploration with an exhaustive boundary grid: for each tracker's storage, 8 maximum ages (0..u32::MAX) x 4 announce times x 8 swarm sizes (inline and heap) x 3 positions x seeder/leecher x 5 re-announce offsets x 2 families (udp/http), and peer + pending-offer expiry for ws, with cleaning passes one second before, at and after the deadline and presence read back by scrape and observer announce / late answer; plus random histories with deadlines and cleans interleaved arbitrarily (focus generator with extreme ages).",
    "level_note": "Trusted: reference models; mock clock hook behind ServerStartInstant::seconds_elapsed (http/ws read the clock inside clean / announce).",
    "design_ref": "3/C10",
}

PLANS["C11"] = {
    "title": "Access list is enforced on announce, on cleaning and across reloads",
    "level": "exploration",
    "engine": "swarm_diff",
    "technique": "runtime monitors: reload-sequence monitor on update_access_list with live caches vs reference list semantics (enumerated reload faults), and clean-vs-list differential histories on the three storages",
    "packages": ["vproto", "vudp", "vhttp", "vws"],
    "parallel": 8,
    "steps": lambda tier, seed: [{"name": "access_list", "bin": "access_list", "args": []}] + (
        swarm_steps("udp_swarm", "udp_swarm", "quick", quick_budget=10) + swarm_steps("http_swarm", "http_swarm", "quick", quick_budget=10) + swarm_steps("ws_swarm", "ws_swarm", "quick", quick_budget=10)
        if tier == "quick" else
        shards("udp_swarm", "udp_swarm", 4, ["--histories", "100000000", "--budget_s", "100"]) + shards("http_swarm", "http_swarm", 4, ["--histories", "100000000", "--budget_s", "100"]) + shards("ws_swarm", "ws_swarm", 4, ["--histories", "100000000", "--budget_s", "100"])),
    "min_evaluations": {"quick": 200000, "thorough": 1000000},
    "assumptions": ["a line is well-formed iff, after trimming, it is 40 hex digits"],
    "level_text": "Exploration with enumerated reload faults: sequences of reloads of generated list files (valid in every spelling, a bad line at any position, missing, directory, non-UTF-8) through the real update_access_list while caches created earlier keep answering; after every reload all probe hashes are queried in all modes through both access paths and must follow the list in force (the previous one after a failed reload). On the storages, histories with list reloads and cleans check that the next clean removes exactly the forbidden torrents. Live trackers (udp, http, ws): start-up list, SIGUSR1 reloads (good, malformed, missing, a second good one), announces on fresh connections and on client sessions that predate the reload (ws connections re-announcing, one http kept-alive connection), state read back by scrapes before and after cleaning passes.",
    "level_note": "Trusted: reference list parser; the announce-time gate itself lives in the socket workers and is decided by the live engines.",
    "design_ref": "3/C11",
}

PLANS["C20"] = {
    "title": "UDP operator reports are faithful; scrape export is replaced atomically",
    "level": "fault_enumeration",
    "engine": "swarm_diff",
    "technique": "differential runtime monitor of totals / folded PeerAdded-PeerRemoved stream / export content vs reference model; concurrent-reader monitor; process abort at every enumerated export step",
    "packages": ["vudp"],
    "parallel": 8,
    "steps": lambda tier, seed: [{"name": "udp_export", "bin": "udp_export", "args": []}] + udp_swarm_steps(tier),
    "min_evaluations": {"quick": 50000, "thorough": 500000},
    "assumptions": ["a crash is a process abort; power loss (no fsync) is outside the statement", "torrents dropped by the access list in the very pass that writes the export may or may not be listed (don't-care)"],
    "level_text": "Fault enumeration + exploration: (1) after every cleaning pass of random histories (statistics and exports on) the four totals, the per-peer-id tallies obtained by folding the real StatisticsMessage stream with the statistics worker's rule, and the parsed export file equal the reference model; (2) a reader polling the export path during hundreds of exports with stretched gaps only ever sees complete exports in order; (3) a child process is aborted at every individual export step (create, each line, before flush, before rename, after rename) for several sizes and shapes and the path must hold the previous or the new complete file.",
    "level_note": "Trusted: reference model, export-step probes (never inside a lock).",
    "design_ref": "3/C20",
}


def udp_live(name, scenario, backend="mio", extra=None, **kw):
    s = {"name": name, "bin": "udp_live", "args": ["--scenario", scenario, "--backend", backend] + (extra or []), "crash_is_violation": True, "timeout_s": 600}
    s.update(kw)
    return s


def c06_steps(tier):
    if tier == "quick":
        return [udp_live("contract_mio_w2", "contract", "mio", ["--workers", "2", "--datagrams", "2500"]),
                udp_live("contract_uring_w1", "contract", "uring", ["--workers", "1", "--datagrams", "1200"]),
                udp_live("contract_mio_scrape3", "contract", "mio", ["--workers", "1", "--datagrams", "800", "--max_scrape", "3"])]
    out = []
    for be in ("mio", "uring"):
        for w in (1, 2, 3):
            for ms in (0, 1, 3, 70, 255):
                out.append(udp_live("contract_%s_w%d_s%d" % (be, w, ms), "contract", be, ["--workers", str(w), "--datagrams", "12000", "--max_scrape", str(ms)]))
    return out


PLANS["C06"] = {
    "title": "UDP request/reply contract: one reply, to the sender, no amplification",
    "level": "exploration",
    "engine": "live",
    "technique": "offline checker over the recorded datagram log of loopback clients against the real in-process tracker (mio and io_uring), expectations from the reference BEP 15 decoder and the harness's table of issued connection ids; quiescence decided on the tracker's datagram counter",
    "packages": ["vudp"],
    "parallel": 6,
    "steps": lambda tier, seed: c06_steps(tier),
    "min_evaluations": {"quick": 10000, "thorough": 100000},
    "assumptions": ["loopback neither duplicates nor reorders; a request counts as received only if the tracker's udp.datagram_seen counter accounts for every datagram sent (otherwise inconclusive)",
                    "which of the tracker's sockets sends a reply is not constrained by the statement (reported as an observation for the io_uring dual-stack case)"],
    "level_text": "Exploration on the live tracker: eight client sockets (six IPv4 hosts, ::1, an IPv4 host through the dual-stack IPv6 socket) send connects, announces (all events, extension bytes), scrapes of 1..100 hashes with known per-torrent counts, answerable and unanswerable malformed requests, truncations, header bit flips and random bytes, with valid / stale (mock clock) / foreign-address / forged / other-tracker-instance / bit-flipped connection ids; every reply is matched to its request by socket and transaction id and checked for count (at most one; exactly one where required), kind, family, scrape order and cut, connect-reply size; datagrams from source port 0 (raw socket) must create no state.",
    "level_note": "Trusted: reference decoder, the windowed sender, the tracker-side datagram counter hook.",
    "design_ref": "3/C06",
}

# ---- live UDP wiring added to the storage-level checks
_c05_steps = PLANS["C05"]["steps"]
PLANS["C05"]["steps"] = lambda tier, seed: _c05_steps(tier, seed) + [udp_live("window_mio", "window", "mio", ["--workers", "2"])] + ([udp_live("window_uring", "window", "uring", ["--workers", "2"])] if tier == "thorough" else [])
PLANS["C05"]["level_text"] += " On the wire: a live tracker (mio; io_uring in thorough) under the mock clock answers an announce carrying an issued id iff the reference predicate holds at t_issue, +age-1, +age, +age+1, -60, -61, from the issuing address (any source port) and never from another address."

_c10_steps = PLANS["C10"]["steps"]
PLANS["C10"]["steps"] = lambda tier, seed: _c10_steps(tier, seed) + [udp_live("expiry_udp_mio", "expiry", "mio")] + ([udp_live("expiry_udp_uring", "expiry", "uring")] if tier == "thorough" else [])

_c11_steps = PLANS["C11"]["steps"]
PLANS["C11"]["steps"] = lambda tier, seed: _c11_steps(tier, seed) + [udp_live("access_udp_allow_mio", "access", "mio", ["--mode", "allow"])] + (
    [udp_live("access_udp_deny_mio", "access", "mio", ["--mode", "deny"]), udp_live("access_udp_allow_uring", "access", "uring", ["--mode", "allow"]), udp_live("access_udp_deny_uring", "access", "uring", ["--mode", "deny"])] if tier == "thorough" else [])


def http_live(name, scenario, extra=None, **kw):
    s = {"name": name, "bin": "http_live", "args": ["--scenario", scenario] + (extra or []), "crash_is_violation": True, "timeout_s": 900}
    s.update(kw)
    return s


def c16_steps(tier):
    if tier == "quick":
        return [http_live("framing_1x1", "framing", ["--socket_workers", "1", "--swarm_workers", "1", "--requests", "1500"]),
                http_live("framing_2x3", "framing", ["--socket_workers", "2", "--swarm_workers", "3", "--requests", "1500", "--max_peers", "50"]),
                http_live("framing_3x2_close", "framing", ["--socket_workers", "3", "--swarm_workers", "2", "--requests", "1500", "--no_keep_alive"]),
                http_live("keepalive_2x1", "keepalive", ["--socket_workers", "2", "--swarm_workers", "1", "--rounds", "4"])]
    out = []
    for s in (1, 2, 3):
        for w in (1, 2, 3):
            for ka in (True, False):
                out.append(http_live("framing_%dx%d_%s" % (s, w, "ka" if ka else "close"), "framing",
                                     ["--socket_workers", str(s), "--swarm_workers", str(w), "--requests", "12000", "--rounds", "40", "--max_peers", "50" if (s + w) % 2 else "5", "--max_scrape", "3" if w != 2 else "100"] + ([] if ka else ["--no_keep_alive"])))
    out.append(http_live("corpus_2x2", "corpus", ["--socket_workers", "2", "--swarm_workers", "2", "--cases", "3000"]))
    for (s, idle, interval) in ((1, 4, 3), (2, 4, 3), (3, 6, 2), (2, 2, 4), (1, 30, 2)):
        out.append(http_live("keepalive_%dx1_idle%d_int%d" % (s, idle, interval), "keepalive", ["--socket_workers", str(s), "--swarm_workers", "1", "--rounds", "8", "--idle", str(idle), "--interval", str(interval)]))
    return out


PLANS["C16"] = {
    "title": "HTTP tracker: one well-framed reply per request; workers are invisible",
    "level": "exploration",
    "engine": "live",
    "technique": "client-side framing monitor (own HTTP and strict bencode readers) over byte logs of TCP clients against the real in-process tracker; sequential phases compared with the reference tracker for every worker configuration, concurrent phases decided by the linearizability checker",
    "packages": ["vhttp"],
    "parallel": 4,
    "steps": lambda tier, seed: c16_steps(tier),
    "min_evaluations": {"quick": 1500, "thorough": 20000},
    "assumptions": ["TLS, pipelining and reverse-proxy mode (C03) are out of scope here", "mock clock frozen: no expiry during a run (except the keepalive scenario, which moves it)", "a kept-alive connection may be closed by the tracker only after max_connection_idle seconds of its own clock without a request"],
    "level_text": "Exploration on the live tracker: for socket_workers x swarm_workers in {1,2,3}^2 and keep-alive on/off (three configurations in quick, all eighteen in thorough) five actors (IPv4 hosts through the plain and the dual-stack listener, ::1) send announces (all events, numwant absent/0/n, unknown keys) and scrapes (hashes on one / several / all swarm workers, repeated, beyond max_scrape_torrents) over kept-alive or fresh connections, a third of them split across TCP segments with the cut walking over every byte; every reply must be one HTTP/1.1 200 response whose Content-Length equals the bytes that follow and whose body is one complete canonical bencode value equal to the reference tracker's reply, while hostile connections (garbage, 2049-byte requests, bad escapes, POST, never-completed requests) come and go; then 8 connections run concurrently and each torrent's history must be linearizable.",
    "level_note": "Trusted: framing monitor, strict bencode decoder, reference model, linearizability checker.",
    "design_ref": "3/C16",
}


def c18_steps(tier):
    out = []
    udp_cases = [("30", False), ("454", True), ("456", True)] if tier == "quick" else [("30", False), ("30", True), ("454", True), ("454", False), ("456", True), ("1362", False), ("1364", False), ("5000", True)]
    backends = ["mio", "uring"]
    for be in backends:
        for mp, v6 in udp_cases:
            if tier == "quick" and be == "uring" and mp == "456":
                continue
            out.append(udp_live("udp_%s_peers%s_%s" % (be, mp, "v6" if v6 else "v4"), "buffers", be, ["--max_response_peers", mp, "--max_scrape", "255" if mp == "30" else "70"] + (["--v6"] if v6 else [])))
    http_cases = [(["--max_peers", "50"], "default"), (["--max_peers", "222", "--v6"], "p222v6"), (["--max_peers", "664"], "p664v4")]
    if tier != "quick":
        http_cases += [(["--max_peers", m] + fam, "p%s%s" % (m, "v6" if fam else "v4")) for m in ("220", "221", "223", "661", "665", "2000") for fam in ([], ["--v6"])]
        http_cases += [(["--max_peers", "50", "--digits", d], "digits" + d) for d in ("2", "3")]
        http_cases += [(["--max_peers", "50", "--socket_workers", "2", "--swarm_workers", "3"], "2x3")]
    for extra, label in http_cases:
        out.append(http_live("http_" + label, "buffers", extra))
    return out


PLANS["C18"] = {
    "title": "Every reply the tracker computes fits its buffers and is delivered whole",
    "level": "exploration",
    "engine": "live",
    "technique": "live worst-case probing per configuration: either run() refuses the configuration at start-up or the harness fills the largest swarm over the wire and the worst-case accepted request must be answered completely (framing monitors of C13 / C16)",
    "packages": ["vudp", "vhttp"],
    "parallel": 6,
    "steps": lambda tier, seed: c18_steps(tier),
    "min_evaluations": {"quick": 20, "thorough": 100},
    "assumptions": ["counter widths beyond what this machine can populate (millions of peers) are extrapolated, not observed", "one client address announcing N ports stands for N peers"],
    "level_text": "Exploration over configurations: UDP (mio and io_uring) with max_response_peers at the defaults and on both sides of the 8192-byte boundary for each family, max_scrape_torrents 70 and 255 (scrapes of exactly the limit and of limit+1 .. 400 hashes, which the parser accepts and cuts), announces followed by 300 extension bytes; HTTP with max_peers at the default and around the former 4096-byte boundary for each family, scrapes of 1..65 hashes (65 minimal-length hashes are what fits the 2048-byte request buffer) with 1- to 3-digit counters. A configuration must either be refused by run() or deliver the worst-case reply whole.",
    "level_note": "Trusted: the wire decoders of the harness; start-up refusal is observed as run() returning an error before the first request.",
    "design_ref": "3/C18",
}

_c10b = PLANS["C10"]["steps"]
PLANS["C10"]["steps"] = lambda tier, seed: _c10b(tier, seed) + [http_live("expiry_http", "expiry", ["--swarm_workers", "2"])]
_c11b = PLANS["C11"]["steps"]
PLANS["C11"]["steps"] = lambda tier, seed: _c11b(tier, seed) + [http_live("access_http_allow", "access", ["--swarm_workers", "3"])] + ([http_live("access_http_deny", "access", ["--mode", "deny", "--swarm_workers", "2"])] if tier == "thorough" else [])
_c12b = PLANS["C12"]["steps"]
PLANS["C12"]["steps"] = lambda tier, seed: _c12b(tier, seed) + [http_live("corpus_http", "corpus", ["--cases", "400" if tier == "quick" else "4000", "--socket_workers", "2", "--swarm_workers", "2"]),
                                                                udp_live("corpus_udp_mio", "contract", "mio", ["--workers", "2", "--datagrams", "1500"])]


def ws_live(name, scenario, extra=None, **kw):
    s = {"name": name, "bin": "ws_live", "args": ["--scenario", scenario] + (extra or []), "crash_is_violation": True, "timeout_s": 900}
    s.update(kw)
    return s


def c17_steps(tier):
    if tier == "quick":
        return [ws_live("routing_1x1", "routing", ["--socket_workers", "1", "--swarm_workers", "1", "--ops", "250"]),
                ws_live("routing_2x3", "routing", ["--socket_workers", "2", "--swarm_workers", "3", "--ops", "350"]),
                ws_live("keepalive_2x2", "keepalive", ["--socket_workers", "2", "--swarm_workers", "2", "--rounds", "3"]),
                ws_live("closerace_2x2", "closerace", ["--socket_workers", "2", "--swarm_workers", "2", "--connections", "300"])]
    out = []
    for s in (1, 2, 3):
        for w in (1, 2, 3):
            out.append(ws_live("routing_%dx%d" % (s, w), "routing", ["--socket_workers", str(s), "--swarm_workers", str(w), "--ops", "3000", "--connections", "10" if s < 3 else "20", "--rounds", "12"]))
    out.append(ws_live("corpus", "corpus", ["--cases", "3000"]))
    for (sw, w2) in ((1, 1), (2, 2), (3, 2), (1, 3)):
        out.append(ws_live("closerace_%dx%d" % (sw, w2), "closerace", ["--socket_workers", str(sw), "--swarm_workers", str(w2), "--connections", "600"]))
    for (sw, idle, interval) in ((1, 4, 3), (3, 6, 2), (2, 2, 4), (2, 30, 2)):
        out.append(ws_live("keepalive_%dx2_idle%d_int%d" % (sw, idle, interval), "keepalive", ["--socket_workers", str(sw), "--swarm_workers", "2", "--rounds", "8", "--idle", str(idle), "--interval", str(interval)]))
    return out


PLANS["C17"] = {
    "title": "WebTorrent tracker routes to the right connection; closed ones leave no peers",
    "level": "exploration",
    "engine": "live",
    "technique": "offline checker over per-connection WebSocket message logs (independent JSON reader) against the ws reference model with connection ownership; conservation check at quiescence for concurrent phases; hook counters decide when a closure has been processed",
    "packages": ["vws"],
    "parallel": 4,
    "steps": lambda tier, seed: c17_steps(tier),
    "min_evaluations": {"quick": 200, "thorough": 3000},
    "assumptions": ["clients read promptly (fewer than 16 unread messages per connection) so that the tracker's documented back-pressure drops cannot be mistaken for loss",
                    "a second peer id is 'refused with an error' if an error message arrives or the tracker drops the connection (the message races with the teardown; delivery is reported as an observation), and never an announce reply",
                    "an empty info-hash list may be answered by an error or an empty scrape reply",
                    "the tracker may close a connection on its own only after max_connection_idle seconds of its clock without an announce / scrape reply sent to it"],
    "level_text": "Exploration on the live tracker: 10-20 hand-written WebSocket connections (IPv4 and ::1, text and binary frames) on 1-3 socket workers run random sequences of announces (own peer id, somebody else's peer id, a second peer id), offers, answers to outstanding and to invented offers, scrapes (absent / empty / single / list, spanning swarm workers), orderly closes and TCP resets; after each operation (fenced by a scrape travelling the same path) every connection's new messages are classified: offers and answers must arrive at exactly the connection that created the addressed peer, every non-ignored announce and every scrape gets exactly one reply, ignored announces get nothing, and after each close an observer's scrape must equal the reference model. A concurrent phase checks conservation (no offer to a non-member, to its sender, or twice) and scrape totals at quiescence. Close race: hundreds of connections announce one peer each and are closed / reset at once; when all clean-ups are processed the torrent must be empty (known finding ws.close.overtakes_inflight_announce). The accept distribution over socket workers is reported; a multi-worker run in which all connections landed on one worker is inconclusive.",
    "level_note": "Trusted: the WebSocket client, vcore::json, vcore::wsmodel; counters ws.cleanup_done / ws.swarm.connection_closed_handled.",
    "design_ref": "3/C17",
}

PLANS["C03"] = {
    "title": "Stored peer addresses are the real source addresses",
    "level": "exploration",
    "engine": "live",
    "technique": "runtime monitors at three layers: canonicalisation functions vs std classification, reverse-proxy header extraction vs reference rule, and live trackers observed by second clients over plain, dual-stack and IPv6 sockets",
    "packages": ["vproto", "vudp", "vhttp", "vws"],
    "parallel": 6,
    "steps": lambda tier, seed: [{"name": "addr_canon", "bin": "addr_canon", "args": []},
                                 udp_live("udp_addr_dual_mio", "address", "mio", ["--sockets", "dual"]),
                                 http_live("http_addr", "address", []),
                                 http_live("http_addr_proxy", "address", ["--proxy"]),
                                 ws_live("ws_addr", "address", [])] + (
        [udp_live("udp_addr_dual_uring", "address", "uring", ["--sockets", "dual"])] if tier == "quick" else
        [udp_live("udp_addr_%s_%s" % (m, be), "address", be, ["--sockets", m, "--rounds", "40", "--workers", "2"]) for m in ("dual", "v4only", "v6only") for be in ("mio", "uring")]
        + [http_live("http_addr_2x2", "address", ["--socket_workers", "2", "--swarm_workers", "2", "--rounds", "40"]), http_live("http_addr_proxy_2x2", "address", ["--proxy", "--socket_workers", "2", "--swarm_workers", "2", "--rounds", "40"]),
           ws_live("ws_addr_3x3", "address", ["--socket_workers", "3", "--swarm_workers", "3", "--rounds", "40"])]
        + swarm_steps("udp_swarm", "udp_swarm", "quick", quick_budget=20) + swarm_steps("http_swarm", "http_swarm", "quick", quick_budget=20)),
    "min_evaluations": {"quick": 50000, "thorough": 100000},
    "assumptions": ["only loopback source addresses can be produced (127.0.0.0/8, ::1 and fd00::/8 addresses added to lo)", "in reverse-proxy mode the last header value is written by the proxy and is syntactically valid (the tracker panics by design otherwise)", "TLS paths are not exercised"],
    "level_text": "Exploration: (1) canonicalisation code of all three trackers on boundary address forms vs std; (2) reverse-proxy header extraction on generated header blocks vs 'last value of last occurrence, trimmed'; (3) live: IPv4 hosts announce through the plain socket and through the dual-stack socket with arbitrary in-request ip fields (udp ip_address, http ip= / ipv6= keys), IPv6 hosts through ::1 and added fd00:: addresses; observers on each socket must be handed exactly the (real source ip, announced port) pairs, one and the same IPv4 peer for a host reached both ways, and scrapes through each socket type see the right family; ipv4-only / ipv6-only / dual-stack socket configurations, mio and io_uring, http with a harness-side proxy, ws family classification.",
    "level_note": "Trusted: std's to_ipv4_mapped, the harness's wire decoders.",
    "design_ref": "3/C03",
}

_c08b = PLANS["C08"]["steps"]
PLANS["C08"]["steps"] = lambda tier, seed: _c08b(tier, seed) + ([ws_live("ownership_live_2x2", "routing", ["--socket_workers", "2", "--swarm_workers", "2", "--ops", "300"])] if tier == "quick" else
                                                                 [ws_live("ownership_live_%dx%d" % (s, w), "routing", ["--socket_workers", str(s), "--swarm_workers", str(w), "--ops", "2000"]) for s in (1, 2, 3) for w in (1, 2, 3)])
PLANS["C08"]["level_text"] += " The two ownership-at-close clauses (an impostor's announce is ignored, gets no reply and removes nothing when the impostor's connection closes) are decided on the live tracker by the C17 engine, where the real socket workers do the bookkeeping."
_c10c = PLANS["C10"]["steps"]
PLANS["C10"]["steps"] = lambda tier, seed: _c10c(tier, seed) + [ws_live("expiry_ws", "expiry", [])]
_c11c = PLANS["C11"]["steps"]
PLANS["C11"]["steps"] = lambda tier, seed: _c11c(tier, seed) + [ws_live("access_ws_allow", "access", [])] + ([ws_live("access_ws_deny", "access", ["--mode", "deny"])] if tier == "thorough" else [])
_c12c = PLANS["C12"]["steps"]
PLANS["C12"]["steps"] = lambda tier, seed: _c12c(tier, seed) + [ws_live("corpus_ws", "corpus", ["--cases", "500" if tier == "quick" else "5000"])]

PLANS["C19"] = {
    "title": "A dead worker brings the whole tracker down",
    "level": "fault_enumeration",
    "engine": "faults",
    "technique": "enumerated fault injection through worker-loop probes, one child process per scenario with the tracker in-process; verdict = run() returned Err within 10 s of the instant the probe fired",
    "packages": ["vfaults"],
    "parallel": 1,
    "steps": lambda tier, seed: [{"name": "faults", "bin": "faults", "args": ["--par", "6" if tier == "quick" else "8"], "timeout_s": 1700}],
    "min_evaluations": {"quick": 30, "thorough": 150},
    "assumptions": ["this is the one property whose statement is a wall-clock bound; scenarios run a few at a time and a scenario whose probe never fired is inconclusive",
                    "a worker 'stops' where its thread ends: sub-tasks of a glommio worker that end without ending the worker are not worker deaths"],
    "level_text": "Fault enumeration: for udp (mio and io_uring), http and ws, every worker kind (socket i of n, swarm i of n, cleaning, statistics, signals, prometheus) is made to fail by a panic in its loop, a panic inside a detached per-connection task, an early return Ok or Err, a socket bind failure (non-local address) or a prometheus bind failure (port in use), at the first iteration, after serving requests, after 17-80 s of uptime under traffic, or after serving requests while served client connections are still open (one of them busy), with 1-3 workers of the kind (49 scenarios quick, about 210 thorough); each scenario records when the fault fired and when run() returned.",
    "level_note": "Trusted: the probe handler (fires once, only in the targeted thread), the child-process clock.",
    "design_ref": "3/C19",
}

ENGINES = [
    {"name": "swarm_diff", "path": "harness/vudp/src/bin/udp_swarm.rs, harness/vhttp/src/bin/http_swarm.rs, harness/vws/src/bin/ws_swarm.rs (+ vcore/src/model.rs, wsmodel.rs)", "serves_properties": ["C01", "C02", "C03", "C07", "C08", "C09", "C10", "C11", "C12", "C20"],
     "kind_free_text": "runtime differential monitor: real storage APIs driven through random / grid histories, compared with a reference model after every operation"},
    {"name": "select_enum", "path": "harness/vudp/src/bin/udp_select.rs, harness/vhttp/src/bin/http_select.rs, harness/vws/src/bin/ws_select.rs (+ vcore/src/srng.rs)", "serves_properties": ["C02"],
     "kind_free_text": "runtime predicate monitor over the real peer selection with a scripted RNG enumerating every offset outcome"},
    {"name": "sched", "path": "harness/vudp/src/bin/udp_sched.rs, udp_stress.rs (+ vcore/src/lin.rs)", "serves_properties": ["C04"],
     "kind_free_text": "serialised schedule enumeration at probe points over real executions + free-running stress with delay injection; linearizability checker over recorded histories; gdb watchdog"},
    {"name": "codec_diff", "path": "harness/vproto/src/bin/codec_udp.rs, codec_http.rs, codec_ws.rs, access_list.rs, addr_canon.rs; harness/vudp/src/bin/udp_validator.rs (+ vcore/src/refudp.rs, bencode.rs, json.rs)", "serves_properties": ["C03", "C05", "C11", "C13", "C14", "C15"],
     "kind_free_text": "runtime differential monitors of codecs / predicates against independent reference implementations"},
    {"name": "crash_shards", "path": "harness/vproto/src/bin/crash_shards.rs (+ vcore/src/alloc.rs)", "serves_properties": ["C12"],
     "kind_free_text": "sharded child processes with write-ahead case log, catch_unwind on worker-sized stacks, counting allocator"},
    {"name": "live", "path": "harness/vudp/src/bin/udp_live.rs, harness/vhttp/src/bin/http_live.rs, harness/vws/src/bin/ws_live.rs (+ */src/live.rs)", "serves_properties": ["C03", "C05", "C06", "C08", "C10", "C11", "C12", "C16", "C17", "C18"],
     "kind_free_text": "in-process trackers + loopback clients, offline checkers over recorded logs, hook counters for quiescence, mock clock"},
    {"name": "faults", "path": "harness/vfaults/src/bin/faults.rs, harness/vudp/src/bin/udp_export.rs", "serves_properties": ["C19", "C20"],
     "kind_free_text": "one child process per injected fault / crash point"},
]


# ---- sanitizer passes (thorough tier only): the same engines, rebuilt under one sanitizer family each ----
def san_step(name, san, pkg, binary, args, timeout_s=1700, **kw):
    s = {"name": name, "kind": "sanitizer", "san": san, "pkg": pkg, "bin": binary, "args": list(args), "timeout_s": timeout_s}
    s.update(kw)
    return s


def miri_shards(name, pkg, binary, n, args, **kw):
    # one `cargo miri run` is single-threaded: several small processes, each with its own shard of the PRNG stream
    return [san_step("miri_%s_s%d" % (name, i), "miri", pkg, binary, list(args) + ["--shard", str(101 + i)], **kw) for i in range(n)]


def _with_sanitizers(prop, extra):
    base = PLANS[prop]["steps"]
    PLANS[prop]["steps"] = lambda tier, seed: base(tier, seed) + (extra(seed) if tier == "thorough" else [])
    PLANS[prop].setdefault("sanitizers", [])


SAN_NOTE = {
    "miri": " Sanitizer pass (thorough): the same engine runs under Miri (Tree Borrows; undefined behaviour, invalid borrows, data races) in several small shards.",
    "tsan": " Sanitizer pass (thorough): the stress and schedule-enumeration engines are rebuilt with ThreadSanitizer (-Zbuild-std) and any report is a violation.",
    "asan": " Sanitizer pass (thorough): the live engine with the io_uring backend (the only place with hand-written unsafe buffer code) is rebuilt with AddressSanitizer; any report is a violation.",
}

_with_sanitizers("C01", lambda seed: miri_shards("udp_swarm", "vudp", "udp_swarm", 4, ["--histories", "12", "--budget_s", "240"]))
PLANS["C01"]["level_text"] += SAN_NOTE["miri"]
_with_sanitizers("C07", lambda seed: miri_shards("http_swarm", "vhttp", "http_swarm", 4, ["--histories", "10", "--budget_s", "240"]))
PLANS["C07"]["level_text"] += SAN_NOTE["miri"]
_with_sanitizers("C08", lambda seed: miri_shards("ws_swarm", "vws", "ws_swarm", 3, ["--histories", "24", "--budget_s", "240"]))
PLANS["C08"]["level_text"] += SAN_NOTE["miri"]
_with_sanitizers("C09", lambda seed: miri_shards("ws_swarm", "vws", "ws_swarm", 3, ["--histories", "24", "--budget_s", "240"]))
PLANS["C09"]["level_text"] += SAN_NOTE["miri"]
_with_sanitizers("C13", lambda seed: miri_shards("codec_udp", "vproto", "codec_udp", 3, ["--messages", "500", "--budget_s", "240"]))
PLANS["C13"]["level_text"] += SAN_NOTE["miri"]
_with_sanitizers("C14", lambda seed: miri_shards("codec_http", "vproto", "codec_http", 3, ["--messages", "400", "--budget_s", "240"]))
PLANS["C14"]["level_text"] += SAN_NOTE["miri"]
_with_sanitizers("C05", lambda seed: miri_shards("udp_validator", "vudp", "udp_validator", 2, ["--rounds", "300", "--budget_s", "240"]))
PLANS["C05"]["level_text"] += SAN_NOTE["miri"]
_with_sanitizers("C04", lambda seed: [san_step("tsan_udp_stress", "tsan", "vudp", "udp_stress", ["--rounds", "1500", "--budget_s", "150"]),
                                      san_step("tsan_udp_sched", "tsan", "vudp", "udp_sched", ["--max_leaves", "6000", "--budget_s", "150"])])
PLANS["C04"]["level_text"] += SAN_NOTE["tsan"]
_with_sanitizers("C06", lambda seed: [san_step("asan_contract_uring_w2", "asan", "vudp", "udp_live", ["--scenario", "contract", "--backend", "uring", "--workers", "2", "--datagrams", "6000"], crash_is_violation=True)])
PLANS["C06"]["level_text"] += SAN_NOTE["asan"]
_with_sanitizers("C18", lambda seed: [san_step("asan_buffers_uring", "asan", "vudp", "udp_live", ["--scenario", "buffers", "--backend", "uring"], crash_is_violation=True)])
PLANS["C18"]["level_text"] += SAN_NOTE["asan"]
_with_sanitizers("C12", lambda seed: [san_step("asan_contract_uring_w1", "asan", "vudp", "udp_live", ["--scenario", "contract", "--backend", "uring", "--workers", "1", "--datagrams", "6000"], crash_is_violation=True)])
PLANS["C12"]["level_text"] += SAN_NOTE["asan"]

# ---- second batch of sanitizer passes (added in the extension phase, DESIGN 7.7) ----
# C12: the parser entry points under AddressSanitizer in the sharded children (simd-json, httparse, zerocopy and the
# hand-written splitters on hostile input), and the non-JSON entry points under Miri in-process.
_with_sanitizers("C12", lambda seed: [san_step("asan_crash_shards", "asan", "vproto", "crash_shards", ["--cases", "60000", "--budget_s", "200", "--par", "12"], env={"VERIF_CHILD_STDERR": "1"})]
                 + miri_shards("crash_inproc", "vproto", "crash_shards", 3, ["--inproc", "--cases", "60", "--budget_s", "240"]))
PLANS["C12"]["level_text"] += " Further sanitizer passes (thorough): the sharded parser corpus under AddressSanitizer (all eleven entry points), and the udp / http / peer-id / access-list entry points under Miri in-process."
# C15: the WebTorrent codec (simd-json is unsafe SIMD code) under AddressSanitizer with its ordinary oracles.
_with_sanitizers("C15", lambda seed: [san_step("asan_codec_ws", "asan", "vproto", "codec_ws", ["--messages", "60000", "--budget_s", "150"])])
PLANS["C15"]["level_text"] += " Sanitizer pass (thorough): the same engine rebuilt with AddressSanitizer (simd-json's SIMD parser on every generated and hostile message); Miri is impractical here (60 s per message)."
# C02: the selection enumeration under Miri for small swarms.
_with_sanitizers("C02", lambda seed: [san_step("miri_udp_select", "miri", "vudp", "udp_select", ["--min_size", "3", "--max_size", "12", "--full_cover_size", "0", "--draws_cap", "4", "--budget_s", "240"]),
                                      san_step("miri_http_select", "miri", "vhttp", "http_select", ["--min_size", "5", "--max_size", "9", "--budget_s", "240"]),
                                      san_step("miri_ws_select", "miri", "vws", "ws_select", ["--min_size", "3", "--max_size", "9", "--budget_s", "240"])])
PLANS["C02"]["level_text"] += SAN_NOTE["miri"]
# C04: the threaded stress program under Miri (data races, the Arc::get_mut / strong-count protocol, deadlock) with different
# scheduler seeds per shard.
_with_sanitizers("C04", lambda seed: [san_step("miri_udp_stress_s%d" % i, "miri", "vudp", "udp_stress", ["--rounds", "14", "--budget_s", "240", "--no_watchdog", "--shard", str(201 + i)], miriflags="-Zmiri-seed=%d" % (seed * 16 + i), stacked_borrows=True) for i in range(4)])
PLANS["C04"]["level_text"] += " Also (thorough): four shards of the stress program under Miri with distinct scheduler seeds (data races, invalid Arc::get_mut use, deadlock as reported by the interpreter)."
# C11: reload sequences through ArcSwap and the caches under Miri.
_with_sanitizers("C11", lambda seed: miri_shards("access_list", "vproto", "access_list", 2, ["--sequences", "25", "--budget_s", "240"]))
PLANS["C11"]["level_text"] += SAN_NOTE["miri"]
# C20 / C10: the statistics / expiry clauses ride on the same storage engine as C01.
_with_sanitizers("C20", lambda seed: miri_shards("udp_swarm", "vudp", "udp_swarm", 2, ["--histories", "12", "--budget_s", "240"]))
PLANS["C20"]["level_text"] += SAN_NOTE["miri"]

# C12: coverage-guided libFuzzer runs (cargo-fuzz, AddressSanitizer) of eight parser entry points, seeded with the shard corpus
_c12fz = PLANS["C12"]["steps"]
PLANS["C12"]["steps"] = lambda tier, seed: _c12fz(tier, seed) + ([{"name": "libfuzzer", "kind": "script", "script": "fuzz_step.py", "args": ["--secs", "200"], "timeout_s": 3000}] if tier == "thorough" else [])
PLANS["C12"]["level_text"] += " Coverage-guided pass (thorough): eight libFuzzer targets (udp request/response, http request bytes / get path / response, ws in text / binary, ws out) built with AddressSanitizer, overflow checks and debug assertions, seeded with the shard corpus, 200 s each with forked workers; libFuzzer only generates the workload, the oracle is the panic / abort / sanitizer report / rss limit that ends a fuzzing process."
# C16 / C17 (and the http / ws halves of C12): the glommio-based trackers in-process under AddressSanitizer, driven by the
# ordinary live scenarios (framing / routing) and the hostile corpus. Tried in the extension phase: glommio's io_uring
# executor runs clean under ASan on this image (no report on the unchanged tree), so the passes are registered.
_with_sanitizers("C16", lambda seed: [san_step("asan_http_framing_2x2", "asan", "vhttp", "http_live", ["--scenario", "framing", "--socket_workers", "2", "--swarm_workers", "2", "--requests", "1500", "--max_peers", "50"], crash_is_violation=True),
                                      san_step("asan_http_corpus", "asan", "vhttp", "http_live", ["--scenario", "corpus", "--cases", "1500", "--socket_workers", "2", "--swarm_workers", "2"], crash_is_violation=True)])
PLANS["C16"]["level_text"] += " Sanitizer pass (thorough): the framing scenario (2x2 workers) and the hostile corpus against the tracker rebuilt with AddressSanitizer (request buffers, httparse, the hand-written response writer)."
_with_sanitizers("C17", lambda seed: [san_step("asan_ws_routing_2x2", "asan", "vws", "ws_live", ["--scenario", "routing", "--socket_workers", "2", "--swarm_workers", "2", "--ops", "300"], crash_is_violation=True),
                                      san_step("asan_ws_corpus", "asan", "vws", "ws_live", ["--scenario", "corpus", "--cases", "1500"], crash_is_violation=True)])
PLANS["C17"]["level_text"] += " Sanitizer pass (thorough): the routing scenario (2x2 workers) and the hostile JSON corpus against the tracker rebuilt with AddressSanitizer (simd-json on live input, tungstenite framing)."
