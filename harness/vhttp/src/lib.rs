//! Helpers shared by the HTTP engines
use std::net::IpAddr;

pub mod live;

pub fn canonical_ip(ip: IpAddr) -> IpAddr {
    match ip {
        IpAddr::V4(a) => IpAddr::V4(a),
        IpAddr::V6(a) => match a.to_ipv4_mapped() {
            Some(v4) => IpAddr::V4(v4),
            None => IpAddr::V6(a),
        },
    }
}

pub fn panic_text(p: &(dyn std::any::Any + Send)) -> String {
    if let Some(s) = p.downcast_ref::<&str>() {
        s.to_string()
    } else if let Some(s) = p.downcast_ref::<String>() {
        s.clone()
    } else {
        "non-string panic".to_string()
    }
}

pub fn silence_panics() {
    vcore::quiet_panics();
}
