//! swarm_diff engine for the HTTP tracker's swarm worker storage
//! (`aquatic_http::verif_api::TorrentMaps`, mock clock for `clean`).
//! Serves C07, C02 (embedded), C03 (mapped sources), C10, C11, C12 (field extremes).

use std::collections::{BTreeMap, BTreeSet};
use std::net::{IpAddr, Ipv4Addr, Ipv6Addr, SocketAddr};
use std::panic::{catch_unwind, AssertUnwindSafe};
use std::sync::Arc;

use aquatic_common::access_list::{AccessList, AccessListArcSwap, AccessListMode};
use aquatic_common::{CanonicalSocketAddr, SecondsSinceServerStart, ServerStartInstant, ValidUntil};
use aquatic_http::config::Config;
use aquatic_http::verif_api::TorrentMaps;
use aquatic_http_protocol::common::{AnnounceEvent, InfoHash, PeerId};
use aquatic_http_protocol::request::{AnnounceRequest, ScrapeRequest};
use rand::rngs::SmallRng;
use rand::SeedableRng;
use serde::{Deserialize, Serialize};
use serde_json::json;

use vcore::model::{check_peer_list, Fam, Model, PeerKey};
use vcore::{Args, Report, SplitMix};
use vhttp::*;

const CAP: usize = 4;

#[derive(Serialize, Deserialize, Clone, Debug)]
enum Op {
    Announce { t: usize, src: usize, port: u16, event: u8, left: u64, numwant: Option<u64>, lag: u32 },
    Scrape { v6: bool, ts: Vec<usize> },
    Clean { advance: u32 },
    Observe { t: usize, v6: bool },
    SetList { list: Vec<usize> },
}

#[derive(Serialize, Deserialize, Clone, Debug)]
struct History {
    max_peers: usize,
    max_scrape_torrents: usize,
    max_peer_age: u32,
    start_clock: u32,
    mode: u8,
    initial_list: Vec<usize>,
    torrents: Vec<String>,
    sources: Vec<String>,
    rng_seed: u64,
    ops: Vec<Op>,
}

#[derive(Default)]
struct Shape {
    seq: Vec<u8>,
    nontrivial: bool,
    counters: BTreeMap<&'static str, u64>,
}
impl Shape {
    fn ev(&mut self, c: u8) {
        self.seq.push(c)
    }
    fn cnt(&mut self, k: &'static str) {
        *self.counters.entry(k).or_insert(0) += 1
    }
}

struct Fail {
    op_index: usize,
    clause: &'static str,
    signature: String,
    detail: String,
}

fn mode_of(m: u8) -> AccessListMode {
    match m {
        1 => AccessListMode::Allow,
        2 => AccessListMode::Deny,
        _ => AccessListMode::Off,
    }
}

fn hash_of(h: &History, t: usize) -> [u8; 20] {
    if t < h.torrents.len() {
        vcore::unhex(&h.torrents[t]).try_into().unwrap()
    } else {
        let mut a = [0xEEu8; 20];
        a[0] = t as u8;
        a
    }
}

fn make_list(h: &History, idx: &[usize]) -> AccessList {
    let mut l = AccessList::default();
    for i in idx {
        l.insert_from_line(&h.torrents[*i % h.torrents.len()]).unwrap();
    }
    l
}

fn event_of(e: u8) -> AnnounceEvent {
    match e & 3 {
        0 => AnnounceEvent::Empty,
        1 => AnnounceEvent::Completed,
        2 => AnnounceEvent::Started,
        _ => AnnounceEvent::Stopped,
    }
}

/// property this process checks (set once in main): a failing clause that does not belong to it must not end the
/// history, or it would mask a later failure of a clause that does (one change often breaks several clauses)
static FOCUS: std::sync::OnceLock<String> = std::sync::OnceLock::new();
static OTHER_CLAUSE_FAILURES: std::sync::atomic::AtomicU64 = std::sync::atomic::AtomicU64::new(0);

macro_rules! bail {
    ($f:expr) => {{
        let f = $f;
        if relevant(FOCUS.get().map(|s| s.as_str()).unwrap_or(""), f.clause) {
            return Err(f);
        }
        OTHER_CLAUSE_FAILURES.fetch_add(1, std::sync::atomic::Ordering::Relaxed);
    }};
}

fn run_history(h: &History, shape: &mut Shape) -> Result<u64, Fail> {
    match catch_unwind(AssertUnwindSafe(|| run_history_inner(h, shape))) {
        Ok(r) => r,
        Err(p) => Err(Fail { op_index: h.ops.len().saturating_sub(1), clause: "panic", signature: format!("http.swarm.panic:{}", panic_text(&*p)), detail: format!("the tracker code panicked during this history: {}", panic_text(&*p)) }),
    }
}

fn run_history_inner(h: &History, shape: &mut Shape) -> Result<u64, Fail> {
    let mut config = Config::default();
    config.protocol.max_peers = h.max_peers;
    config.protocol.max_scrape_torrents = h.max_scrape_torrents;
    config.cleaning.max_peer_age = h.max_peer_age;
    config.access_list.mode = mode_of(h.mode);
    let mut observer_config = config.clone();
    observer_config.protocol.max_peers = 100_000;

    let mut maps = TorrentMaps::new(0);
    let mut model = Model::new();
    let access_list: Arc<AccessListArcSwap> = Arc::new(AccessListArcSwap::from_pointee(make_list(h, &h.initial_list)));
    let mut list_now: BTreeSet<[u8; 20]> = h.initial_list.iter().map(|i| hash_of(h, *i % h.torrents.len())).collect();
    let start = ServerStartInstant::new();
    let mut rng = SmallRng::seed_from_u64(h.rng_seed);
    let mut clock = h.start_clock;
    let mut is_large: BTreeMap<(Fam, [u8; 20]), bool> = BTreeMap::new();
    let mut observer_port = 40000u16;
    let sources: Vec<IpAddr> = h.sources.iter().map(|s| s.parse().unwrap()).collect();
    let mut ops_done = 0;
    let mut touched: BTreeSet<(Fam, [u8; 20])> = BTreeSet::new(); // torrents with an entry in the real map (possibly empty)

    let allowed = |list: &BTreeSet<[u8; 20]>, mode: u8, hash: &[u8; 20]| -> bool {
        match mode {
            1 => list.contains(hash),
            2 => !list.contains(hash),
            _ => true,
        }
    };

    for (i, op) in h.ops.iter().enumerate() {
        let fail = |clause: &'static str, signature: &str, detail: String| Fail { op_index: i, clause, signature: signature.to_string(), detail };
        match op {
            Op::Announce { t, src, port, event, left, numwant, lag } => {
                let hash = hash_of(h, *t);
                let src_ip = sources[*src % sources.len()];
                let canon = canonical_ip(src_ip);
                let fam = Fam::of(&canon);
                let key = PeerKey { ip: canon, port: *port };
                let sample = clock.saturating_sub(*lag);
                let stopped = (*event & 3) == 3;
                let seeder = *left == 0;
                let request = AnnounceRequest {
                    info_hash: InfoHash(hash),
                    peer_id: PeerId([7; 20]),
                    port: *port,
                    bytes_uploaded: 0,
                    bytes_downloaded: 0,
                    bytes_left: *left as usize,
                    event: event_of(*event),
                    numwant: numwant.map(|n| n as usize),
                    key: None,
                };
                let res = catch_unwind(AssertUnwindSafe(|| {
                    let vu = ValidUntil::new_with_now(SecondsSinceServerStart::new_raw(sample), h.max_peer_age);
                    maps.handle_announce_request(&config, &mut rng, vu, CanonicalSocketAddr::new(SocketAddr::new(src_ip, 5555)), request)
                }));
                let resp = match res {
                    Ok(r) => r,
                    Err(p) => return Err(fail("panic", &format!("http.swarm.announce.panic:{}", panic_text(&*p)), "announce panicked".into())),
                };
                touched.insert((fam, hash));
                let view = model.announce(hash, key, stopped, seeder, sample as u64 + h.max_peer_age as u64, [7; 20]);
                if resp.complete != view.seeders || resp.incomplete != view.leechers {
                    bail!(fail("counts", "http.swarm.announce.counts", format!("complete/incomplete {}/{} reference {}/{}", resp.complete, resp.incomplete, view.seeders, view.leechers)));
                }
                let (mine, other_len): (Vec<PeerKey>, usize) = if fam == Fam::V4 {
                    (resp.peers.0.iter().map(|p| PeerKey { ip: IpAddr::V4(p.ip_address), port: p.port }).collect(), resp.peers6.0.len())
                } else {
                    (resp.peers6.0.iter().map(|p| PeerKey { ip: IpAddr::V6(p.ip_address), port: p.port }).collect(), resp.peers.0.len())
                };
                if other_len != 0 {
                    bail!(fail("family", "http.swarm.announce.family", format!("{} peers of the other address family returned to {:?}", other_len, canon)));
                }
                let limit = match numwant {
                    None | Some(0) => h.max_peers,
                    Some(n) => (*n as usize).min(h.max_peers),
                };
                if let Err(e) = check_peer_list(&mine, &view.others, &key, limit, false) {
                    bail!(fail("peerlist", "http.swarm.announce.peerlist", e));
                }
                let large = is_large.entry((fam, hash)).or_insert(false);
                let others = view.others.len();
                if !*large {
                    if others == CAP && !stopped {
                        *large = true;
                        shape.ev(1);
                        shape.cnt("small_to_large");
                        shape.nontrivial = true;
                    }
                } else if stopped && others <= CAP {
                    *large = false;
                    shape.ev(2);
                    shape.cnt("large_to_small_by_stop");
                    shape.nontrivial = true;
                }
                if let Some(prev) = &view.previous {
                    if prev.seeder && (stopped || !seeder) {
                        shape.ev(3);
                        shape.cnt("seeder_removed_or_demoted");
                        shape.nontrivial = true;
                    }
                    shape.cnt("reannounce");
                }
                if canon != src_ip {
                    shape.cnt("ipv4_mapped_source");
                }
                if others > limit {
                    shape.cnt("selection_over_limit");
                }
                shape.ev(10 + (*event & 3) + if seeder { 4 } else { 0 });
            }
            Op::Scrape { v6, ts } => {
                let fam = if *v6 { Fam::V6 } else { Fam::V4 };
                let src_ip: IpAddr = if *v6 { "fd00::99".parse().unwrap() } else { "10.9.9.9".parse().unwrap() };
                let hashes: Vec<[u8; 20]> = ts.iter().map(|t| hash_of(h, *t)).collect();
                let request = ScrapeRequest { info_hashes: hashes.iter().map(|x| InfoHash(*x)).collect() };
                let res = catch_unwind(AssertUnwindSafe(|| maps.handle_scrape_request(&config, CanonicalSocketAddr::new(SocketAddr::new(src_ip, 1)), request)));
                let resp = match res {
                    Ok(r) => r,
                    Err(p) => return Err(fail("panic", &format!("http.swarm.scrape.panic:{}", panic_text(&*p)), "scrape panicked".into())),
                };
                // each of the first max_scrape_torrents requested torrents once, zeros for unknown
                let want: BTreeSet<[u8; 20]> = hashes.iter().take(h.max_scrape_torrents).copied().collect();
                let got: BTreeSet<[u8; 20]> = resp.files.keys().map(|k| k.0).collect();
                if want != got {
                    bail!(fail("scrape", "http.swarm.scrape.set", format!("scrape reply lists {} torrents, expected exactly the first {} requested ({} distinct)", got.len(), h.max_scrape_torrents, want.len())));
                }
                for (k, st) in resp.files.iter() {
                    let (s, l) = model.scrape(fam, &k.0);
                    if st.complete != s || st.incomplete != l || st.downloaded != 0 {
                        bail!(fail("counts", "http.swarm.scrape.counts", format!("scrape {}: {}/{} reference {}/{}", vcore::hex(&k.0[..4]), st.complete, st.incomplete, s, l)));
                    }
                }
                if hashes.len() > h.max_scrape_torrents {
                    shape.cnt("scrape_over_limit");
                }
                if want.len() < hashes.len().min(h.max_scrape_torrents) {
                    shape.cnt("scrape_repeated_hash");
                }
                shape.ev(30);
            }
            Op::Observe { t, v6 } => {
                let hash = hash_of(h, *t);
                let fam = if *v6 { Fam::V6 } else { Fam::V4 };
                let src_ip: IpAddr = if *v6 { "fd00::77".parse().unwrap() } else { "10.7.7.7".parse().unwrap() };
                observer_port = observer_port.wrapping_add(1).max(40000);
                let key = PeerKey { ip: src_ip, port: observer_port };
                let mk = |event| AnnounceRequest {
                    info_hash: InfoHash(hash),
                    peer_id: PeerId([9; 20]),
                    port: observer_port,
                    bytes_uploaded: 0,
                    bytes_downloaded: 0,
                    bytes_left: 1,
                    event,
                    numwant: Some(usize::MAX),
                    key: None,
                };
                let vu = ValidUntil::new_with_now(SecondsSinceServerStart::new_raw(clock), 1);
                let addr = CanonicalSocketAddr::new(SocketAddr::new(src_ip, 1));
                let resp = maps.handle_announce_request(&observer_config, &mut rng, vu, addr, mk(AnnounceEvent::Started));
                touched.insert((fam, hash));
                let view = model.announce(hash, key, false, false, clock as u64 + 1, [9; 20]);
                let got: BTreeSet<PeerKey> = if fam == Fam::V4 {
                    resp.peers.0.iter().map(|p| PeerKey { ip: IpAddr::V4(p.ip_address), port: p.port }).collect()
                } else {
                    resp.peers6.0.iter().map(|p| PeerKey { ip: IpAddr::V6(p.ip_address), port: p.port }).collect()
                };
                if got != view.others || resp.peers.0.len() + resp.peers6.0.len() != view.others.len() {
                    bail!(fail("handout", "http.swarm.handout_set", format!("hand-out set differs: missing {:?} unexpected {:?}", view.others.difference(&got).collect::<Vec<_>>(), got.difference(&view.others).collect::<Vec<_>>())));
                }
                if resp.complete != view.seeders || resp.incomplete != view.leechers {
                    bail!(fail("counts", "http.swarm.announce.counts", format!("observer saw {}/{} reference {}/{}", resp.complete, resp.incomplete, view.seeders, view.leechers)));
                }
                let _ = maps.handle_announce_request(&observer_config, &mut rng, vu, addr, mk(AnnounceEvent::Stopped));
                model.announce(hash, key, true, false, 0, [9; 20]);
                let large = is_large.entry((fam, hash)).or_insert(false);
                let others = view.others.len();
                if !*large && others == CAP {
                    *large = true;
                }
                if *large && others <= CAP {
                    *large = false;
                }
                shape.ev(31);
            }
            Op::SetList { list } => {
                access_list.store(Arc::new(make_list(h, list)));
                list_now = list.iter().map(|i| hash_of(h, *i % h.torrents.len())).collect();
                shape.ev(40);
                shape.cnt("list_reload");
            }
            Op::Clean { advance } => {
                clock = clock.saturating_add(*advance).min(u32::MAX - 1);
                aquatic_common::verif::set_clock(Some(clock));
                let before: BTreeMap<(Fam, [u8; 20]), usize> = model.torrents.iter().map(|(k, v)| (*k, v.len())).collect();
                let res = catch_unwind(AssertUnwindSafe(|| maps.clean(&config, &access_list, start)));
                if let Err(p) = res {
                    return Err(fail("panic", &format!("http.swarm.clean.panic:{}", panic_text(&*p)), "clean panicked".into()));
                }
                let list_ref = list_now.clone();
                let mode = h.mode;
                let removed = model.clean(clock as u64, &|hh| allowed(&list_ref, mode, hh));
                if !removed.is_empty() {
                    shape.ev(50);
                    shape.cnt("clean_expired_some");
                    shape.nontrivial = true;
                }
                for ((fam, hash), n_before) in before.iter() {
                    let n_after = model.size(*fam, hash);
                    let large = is_large.entry((*fam, *hash)).or_insert(false);
                    if *large && n_after <= CAP && n_after > 0 && n_after < *n_before {
                        // http keeps the heap map after a clean (no shrink on clean) - accounting only
                        shape.cnt("heap_map_below_cap_after_clean");
                    }
                    if n_after == 0 && *n_before > 0 {
                        *large = false; // torrent dropped, next entry starts inline
                        shape.cnt("torrent_emptied_by_clean");
                    }
                }
                if touched.iter().any(|k| model.size(k.0, &k.1) == 0) {
                    shape.cnt("empty_entry_dropped_by_clean");
                }
                touched.retain(|k| model.size(k.0, &k.1) > 0);
                // dropped by the next cleaning pass: torrent counts equal the non-empty permitted ones
                let (m4, _) = model.totals(Fam::V4);
                let (m6, _) = model.totals(Fam::V6);
                let (g4, g6) = (maps.ipv4.verif_num_torrents(), maps.ipv6.verif_num_torrents());
                if (g4, g6) != (m4, m6) {
                    bail!(fail("torrent_count", "http.swarm.clean.torrent_count", format!("after clean the tracker holds {}/{} torrents (v4/v6), reference {}/{}", g4, g6, m4, m6)));
                }
                shape.ev(52);
            }
        }
        ops_done += 1;
    }
    for t in 0..h.torrents.len() {
        let hash = hash_of(h, t);
        for fam in [Fam::V4, Fam::V6] {
            let src_ip: IpAddr = if fam == Fam::V6 { "fd00::99".parse().unwrap() } else { "10.9.9.9".parse().unwrap() };
            let mut c2 = config.clone();
            c2.protocol.max_scrape_torrents = 10;
            let r = maps.handle_scrape_request(&c2, CanonicalSocketAddr::new(SocketAddr::new(src_ip, 1)), ScrapeRequest { info_hashes: vec![InfoHash(hash)] });
            let (s, l) = model.scrape(fam, &hash);
            let st = r.files.get(&InfoHash(hash));
            if st.map(|x| (x.complete, x.incomplete)) != Some((s, l)) {
                return Err(Fail { op_index: h.ops.len(), clause: "counts", signature: "http.swarm.final.counts".into(), detail: format!("final scrape torrent {} {:?}: {:?} reference {}/{}", t, fam, st.map(|x| (x.complete, x.incomplete)), s, l) });
            }
        }
    }
    Ok(ops_done)
}

fn gen_history(rng: &mut SplitMix, focus: &str) -> History {
    let n_torrents = 1 + rng.usize(4);
    let torrents: Vec<String> = (0..n_torrents).map(|_| vcore::hex(&rng.arr20())).collect();
    let n_src = 1 + rng.usize(6);
    let mut sources = Vec::new();
    // the sources of one history differ in ONE octet / segment whose position varies from history to history
    // (a key comparison that looks at part of the address only must not go unnoticed)
    let (pos4, pos6) = (rng.usize(4), rng.usize(8));
    let v4_of = |i: u8| {
        let mut o = [10u8, 0, 0, 1];
        o[pos4] = if pos4 == 0 { 11 + i } else { 1 + i };
        Ipv4Addr::new(o[0], o[1], o[2], o[3])
    };
    let v6_of = |i: u16| {
        let mut g = [0xfd00u16, 0, 0, 0, 0, 0, 0, 1];
        g[pos6] = if pos6 == 0 { 0xfd00 + i } else { 1 + i };
        Ipv6Addr::new(g[0], g[1], g[2], g[3], g[4], g[5], g[6], g[7])
    };
    for i in 0..n_src {
        let kind = rng.below(10);
        let ip: IpAddr = if kind < 4 {
            IpAddr::V4(v4_of(i as u8))
        } else if kind < 7 {
            IpAddr::V6(v6_of(i as u16))
        } else {
            IpAddr::V6(v4_of(rng.below(n_src as u64) as u8).to_ipv6_mapped())
        };
        sources.push(ip.to_string());
    }
    let ages: &[u32] = if focus == "C10" { &[0, 1, 2, 3, 7, 1800, u32::MAX / 2, u32::MAX - 1, u32::MAX] } else { &[1, 2, 3, 5, 20, 100] };
    let max_peer_age = *rng.pick(ages);
    let start_clock = if focus == "C10" && rng.chance(1, 4) { *rng.pick(&[0u32, 1, 1000, u32::MAX - 10, u32::MAX / 2]) } else { rng.below(50) as u32 };
    let mode = if focus == "C11" { rng.below(3) as u8 } else if rng.chance(1, 8) { 1 + rng.below(2) as u8 } else { 0 };
    let n_ops = 5 + rng.usize(56);
    let ports: Vec<u16> = (0..(1 + rng.usize(5))).map(|i| if i == 0 && rng.chance(1, 10) { 0 } else { 1000 + i as u16 }).collect();
    let lefts = [0u64, 0, 0, 1, 1, 5, u64::MAX];
    let numwants = [None, None, Some(0u64), Some(1), Some(2), Some(3), Some(5), Some(50), Some(u64::MAX)];
    let mut target_big = rng.chance(1, 2);
    let excursion = rng.chance(1, 20);
    let mut ops = Vec::new();
    for k in 0..n_ops {
        if k % 9 == 8 {
            target_big = !target_big;
        }
        let r = rng.below(100);
        if r < 64 {
            let stop_bias = if target_big { 6 } else { 45 };
            let event = if rng.below(100) < stop_bias { 3 } else { rng.below(3) as u8 };
            let port = if excursion && rng.chance(1, 2) { 2000 + rng.below(40) as u16 } else { *rng.pick(&ports) };
            let unknown_extra = if rng.chance(1, 30) { 1 } else { 0 };
            ops.push(Op::Announce { t: rng.usize(n_torrents + unknown_extra), src: rng.usize(n_src), port, event, left: *rng.pick(&lefts), numwant: *rng.pick(&numwants), lag: if rng.chance(3, 4) { 0 } else { rng.below(3) as u32 } });
        } else if r < 74 {
            let n = 1 + rng.usize(6);
            ops.push(Op::Scrape { v6: rng.chance(1, 2), ts: (0..n).map(|_| rng.usize(n_torrents + 2)).collect() });
        } else if r < 86 {
            let advance = match rng.below(6) {
                0 => 0,
                1 => 1,
                2 => max_peer_age.saturating_sub(1),
                3 => max_peer_age,
                4 => max_peer_age.saturating_add(1),
                _ => rng.below(max_peer_age.min(200) as u64 + 2) as u32,
            };
            ops.push(Op::Clean { advance: if max_peer_age > 100_000 && rng.chance(1, 2) { rng.below(5) as u32 } else { advance } });
        } else if r < 96 || mode == 0 {
            ops.push(Op::Observe { t: rng.usize(n_torrents + 1), v6: rng.chance(1, 2) });
        } else {
            ops.push(Op::SetList { list: (0..n_torrents).filter(|_| rng.chance(1, 2)).collect() });
        }
    }
    History {
        max_peers: *rng.pick(&[0usize, 1, 2, 3, 5, 50, 100]),
        max_scrape_torrents: *rng.pick(&[0usize, 1, 2, 3, 100]),
        max_peer_age,
        start_clock,
        mode,
        initial_list: (0..n_torrents).filter(|_| rng.chance(1, 2)).collect(),
        torrents,
        sources,
        rng_seed: rng.next(),
        ops,
    }
}


/// C10 boundary sweep for the http storage (inline <= 4, heap above): see udp_swarm::gen_sweep
fn gen_sweep(index: u64) -> Option<History> {
    let ages: [u32; 8] = [0, 1, 2, 3, 1800, u32::MAX / 2, u32::MAX - 1, u32::MAX];
    let t0s: [u32; 4] = [0, 1, 1000, u32::MAX - 3];
    let sizes: [usize; 8] = [1, 2, 4, 5, 6, 7, 9, 12];
    let mut i = index;
    let age = ages[(i % 8) as usize];
    i /= 8;
    let t0 = t0s[(i % 4) as usize];
    i /= 4;
    let size = sizes[(i % 8) as usize];
    i /= 8;
    let pos = (i % 3) as usize;
    i /= 3;
    let seeder = i % 2 == 0;
    i /= 2;
    let re = (i % 5) as usize;
    i /= 5;
    let v6 = i % 2 == 1;
    i /= 2;
    if i > 0 {
        return None;
    }
    let target = match pos {
        0 => 0,
        1 => size / 2,
        _ => size - 1,
    };
    let sources: Vec<String> = (0..size).map(|m| if v6 { format!("fd00::{:x}", m + 1) } else { format!("10.0.0.{}", m + 1) }).collect();
    let mut ops = Vec::new();
    for m in 0..size {
        ops.push(Op::Announce { t: 0, src: m, port: 1000 + m as u16, event: 2, left: if (m == target) == seeder { 0 } else { 1 }, numwant: Some(50), lag: 0 });
    }
    let mut issue = t0 as u64;
    let mut clock = t0 as u64;
    let re_off: Option<u64> = match re {
        0 => None,
        1 => Some(0),
        2 => Some(1),
        3 => Some((age as u64).saturating_sub(1)),
        _ => Some(age as u64),
    };
    if let Some(off) = re_off {
        if clock + off < u32::MAX as u64 - 2 {
            ops.push(Op::Clean { advance: off as u32 });
            clock += off;
            ops.push(Op::Announce { t: 0, src: target, port: 1000 + target as u16, event: 0, left: if seeder { 0 } else { 1 }, numwant: Some(50), lag: 0 });
            issue = clock;
        }
    }
    let deadline = issue + age as u64;
    let mut last = clock;
    for instant in [deadline.saturating_sub(1), deadline, deadline + 1] {
        if instant < last || instant > u32::MAX as u64 - 1 {
            continue;
        }
        ops.push(Op::Clean { advance: (instant - last) as u32 });
        last = instant;
        ops.push(Op::Observe { t: 0, v6 });
        ops.push(Op::Scrape { v6, ts: vec![0] });
    }
    Some(History { max_peers: 50, max_scrape_torrents: 10, max_peer_age: age, start_clock: t0, mode: 0, initial_list: vec![], torrents: vec![vcore::hex(&[0x77u8; 20])], sources, rng_seed: index, ops })
}

fn relevant(property: &str, clause: &str) -> bool {
    if clause == "panic" {
        return true;
    }
    match property {
        "C07" => matches!(clause, "counts" | "handout" | "family" | "scrape" | "panic" | "peerlist" | "torrent_count"),
        "C02" => matches!(clause, "peerlist"),
        "C03" => matches!(clause, "family" | "handout"),
        "C10" => matches!(clause, "counts" | "handout" | "panic" | "torrent_count"),
        "C11" => matches!(clause, "counts" | "handout" | "torrent_count"),
        "C12" => matches!(clause, "panic"),
        _ => true,
    }
}

fn main() {
    let args = Args::parse();
    let property = args.property();
    let _ = FOCUS.set(property.clone());
    silence_panics();
    let mut report = Report::new(
        "http_swarm",
        "random histories of announce/scrape/clean/observe/list-reload on the real http swarm-worker TorrentMaps (mock clock), compared with the reference model after every op; \
         non-trivial = history crosses an inline(<=4)<->heap switch, removes/demotes a seeder or expires an entry; distinct = hash of the abstracted event sequence",
    );
    if let Some(path) = args.get("replay") {
        let v: serde_json::Value = serde_json::from_str(&std::fs::read_to_string(path).unwrap()).unwrap();
        let h: History = serde_json::from_value(v["history"].clone()).unwrap();
        let mut shape = Shape::default();
        report.eval();
        match run_history(&h, &mut shape) {
            Ok(_) => println!("replay: history ran clean ({} ops)", h.ops.len()),
            Err(f) => {
                println!("replay: op {} clause {} signature {}: {}", f.op_index, f.clause, f.signature, f.detail);
                report.violation(&f.signature, f.clause, f.detail, json!({"engine":"http_swarm","history": h, "failing_op": f.op_index}));
            }
        }
        report.finish(&args.out());
    }
    if args.get("mode") == Some("sweep") {
        let mut idx = 0u64;
        let mut ops = 0u64;
        while let Some(h) = gen_sweep(idx) {
            let mut shape = Shape::default();
            match run_history(&h, &mut shape) {
                Ok(n) => ops += n,
                Err(f) => {
                    if relevant(&property, f.clause) {
                        let mut hh = h.clone();
                        hh.ops.truncate(f.op_index + 1);
                        report.violation(&f.signature, f.clause, format!("boundary sweep case {}: {}", idx, f.detail), json!({"engine":"http_swarm","history": hh, "failing_op": f.op_index, "sweep_index": idx}));
                    }
                }
            }
            if shape.counters.contains_key("clean_expired_some") {
                report.nontrivial(vcore::fnv(&idx.to_le_bytes()));
            }
            if idx == 4321 {
                report.sample(serde_json::to_value(&h).unwrap());
            }
            idx += 1;
        }
        report.evals(ops);
        report.add("sweep_cases", idx);
        report.extra.insert("exhaustive".into(), json!(true));
        report.rule = "deterministic boundary grid (http storage, mock clock): 8 max ages x 4 announce times x 8 swarm sizes (inline <= 4 and heap) x 3 positions x seeder/leecher x 5 re-announce offsets x 2 families, cleans at deadline-1 / deadline / deadline+1 with scrape + observer read-out vs reference model; non-trivial = case in which a pass expired something; distinct = grid index".into();
        report.finish(&args.out());
    }
    let seed = args.seed();
    let shard = args.u64("shard", 0);
    let histories = args.u64("histories", 20_000);
    let budget_s = args.u64("budget_s", 25);
    let mut rng = SplitMix::new(seed).fork(0x0C07 + shard * 7919);
    let mut other_property = 0u64;
    let mut totals: BTreeMap<&'static str, u64> = BTreeMap::new();
    let mut n_hist = 0u64;
    for _ in 0..histories {
        if report.started.elapsed().as_secs() >= budget_s {
            break;
        }
        let h = gen_history(&mut rng, &property);
        let mut shape = Shape::default();
        let res = run_history(&h, &mut shape);
        n_hist += 1;
        match res {
            Ok(n) => report.evals(n),
            Err(f) => {
                report.evals(f.op_index as u64);
                if relevant(&property, f.clause) {
                    let mut hh = h.clone();
                    hh.ops.truncate(f.op_index + 1);
                    report.violation(&f.signature, f.clause, f.detail, json!({"engine":"http_swarm","seed":seed,"shard":shard,"history": hh, "failing_op": f.op_index}));
                } else {
                    other_property += 1;
                }
            }
        }
        if shape.nontrivial {
            report.nontrivial(vcore::fnv(&shape.seq));
        }
        for (k, v) in shape.counters {
            *totals.entry(k).or_insert(0) += v;
        }
        if report.samples.len() < 2 && h.ops.len() < 12 {
            report.sample(serde_json::to_value(&h).unwrap());
        }
    }
    report.add("histories", n_hist);
    report.add("anomalies_of_other_properties_not_reported_here", other_property);
    for (k, v) in totals {
        report.add(k, v);
    }
    if report.distinct.len() < 2 && report.violations.is_empty() {
        report.inconclusive("fewer than 2 distinct non-trivial histories observed");
    }
    report.finish(&args.out());
}
