//! select_enum engine, HTTP part (C02): the real
//! `TorrentMaps::handle_announce_request` is generic over `impl Rng`, so a
//! scripted RNG enumerates every outcome of both random offset choices.

use std::collections::BTreeSet;
use std::net::{IpAddr, Ipv4Addr, Ipv6Addr, SocketAddr};

use aquatic_common::{CanonicalSocketAddr, SecondsSinceServerStart, ValidUntil};
use aquatic_http::config::Config;
use aquatic_http::verif_api::TorrentMaps;
use aquatic_http_protocol::common::{AnnounceEvent, InfoHash, PeerId};
use aquatic_http_protocol::request::AnnounceRequest;
use serde_json::json;

use vcore::model::{check_peer_list, PeerKey};
use vcore::srng::{self, Scripted};
use vcore::{Args, Report, SplitMix};

fn ip_of(v6: bool, i: usize) -> IpAddr {
    if v6 {
        IpAddr::V6(Ipv6Addr::new(0xfd00, 0, 0, 0, 0, 0, (i >> 16) as u16, i as u16))
    } else {
        IpAddr::V4(Ipv4Addr::new(10, 1, (i >> 8) as u8, i as u8))
    }
}

fn req(hash: [u8; 20], port: u16, event: AnnounceEvent, left: usize, numwant: Option<usize>) -> AnnounceRequest {
    AnnounceRequest {
        info_hash: InfoHash(hash),
        peer_id: PeerId([1; 20]),
        port,
        bytes_uploaded: 0,
        bytes_downloaded: 0,
        bytes_left: left,
        event,
        numwant,
        key: None,
    }
}

fn addr(ip: IpAddr) -> CanonicalSocketAddr {
    CanonicalSocketAddr::new(SocketAddr::new(ip, 1))
}

fn main() {
    let args = Args::parse();
    vhttp::silence_panics();
    let mut report = Report::new(
        "http_select",
        "http announce peer selection with a scripted RNG: swarm size x limit (via numwant or max_peers) x requester position x every (offset1, offset2) outcome, plus a raw 12x12 grid of RNG words; \
         non-trivial = others > limit (two-half-range branch); distinct = (size, limit, position, scripted pair)",
    );
    match srng::self_check(130) {
        Ok(n) => report.add("scripted_rng_selfcheck_pairs", n),
        Err(e) => {
            report.inconclusive(e);
            report.finish(&args.out());
        }
    }
    let seed = args.seed();
    let thorough = args.thorough();
    let max_size = args.usize("max_size", if thorough { 130 } else { 40 });
    let budget_s = args.u64("budget_s", if thorough { 240 } else { 40 });
    let mut meta = SplitMix::new(seed).fork(0xC0207);
    let vu = ValidUntil::new_with_now(SecondsSinceServerStart::new_raw(0), 1000);
    let t0 = std::time::Instant::now();
    let mut config = Config::default();
    let mut exhaustive_cases = 0u64;
    let mut script_mismatch = 0u64;

    let replay = args.get("replay").map(|p| serde_json::from_str::<serde_json::Value>(&std::fs::read_to_string(p).unwrap()).unwrap());

    let sizes: Vec<usize> = match &replay {
        Some(r) => vec![r["size"].as_u64().unwrap() as usize],
        None => (args.usize("min_size", 0)..=max_size).collect(),
    };
    'sizes: for size in sizes {
        if t0.elapsed().as_secs() >= budget_s {
            report.note(format!("time budget reached before size {}", size));
            break;
        }
        let limits: Vec<usize> = match &replay {
            Some(r) => vec![r["limit"].as_u64().unwrap() as usize],
            None => {
                if size <= 24 {
                    (0..=size + 3).collect()
                } else {
                    vec![0, 1, 2, 3, 5, size / 2, size - 2, size - 1, size, size + 1]
                }
            }
        };
        for limit in limits {
            let positions: Vec<Option<usize>> = match &replay {
                Some(r) => vec![r["pos"].as_u64().map(|x| x as usize)],
                None => {
                    if size <= 12 {
                        std::iter::once(None).chain((0..size).map(Some)).collect()
                    } else {
                        let mut v = vec![None, Some(0), Some(1), Some(size / 2 - 1), Some(size / 2), Some(size / 2 + 1), Some(size - 2), Some(size - 1)];
                        v.dedup();
                        v
                    }
                }
            };
            for pos in positions {
                if replay.is_none() && t0.elapsed().as_secs() >= budget_s {
                    report.note(format!("time budget reached inside size {} (limit {})", size, limit));
                    break 'sizes;
                }
                let v6 = meta.chance(1, 3);
                let via_numwant = meta.chance(1, 2) && limit > 0;
                let (max_peers, numwant) = if via_numwant { (limit + 1 + meta.usize(4), Some(limit)) } else { (limit, *meta.pick(&[None, Some(0), Some(limit + 5), Some(usize::MAX)])) };
                config.protocol.max_peers = max_peers;
                let n_others = if pos.is_some() { size - 1 } else { size };
                let over = n_others > limit;
                // the scripts: all (k1, k2) for the ranges the two-half selection draws from, then a raw grid
                let mut scripts: Vec<(Vec<u32>, Option<(u64, u64)>)> = Vec::new();
                if let Some(r) = &replay {
                    scripts.push((r["script"].as_array().unwrap().iter().map(|x| x.as_u64().unwrap() as u32).collect(), None));
                } else if over {
                    let mid = (n_others / 2) as u64;
                    let per_half = (limit / 2) as u64;
                    let r1 = u64::max(1, mid - per_half);
                    let r2 = u64::max(mid + 1, n_others as u64 - per_half) - mid;
                    let full = size <= 32 || (r1 * r2) <= 256;
                    for k1 in 0..r1 {
                        for k2 in 0..r2 {
                            if full || (k1 == 0 || k1 == r1 - 1 || k1 == r1 / 2) && (k2 == 0 || k2 == r2 - 1 || k2 == r2 / 2) || meta.chance(1, 16) {
                                scripts.push((vec![srng::value_for(k1, r1), srng::value_for(k2, r2)], Some((k1, k2))));
                            }
                        }
                    }
                    if full {
                        exhaustive_cases += 1;
                    }
                    if size <= 12 {
                        for a in 0..12u64 {
                            for b in 0..12u64 {
                                scripts.push((vec![(a * 0x1555_5555 + 0x0aaa_aaaa) as u32, (b * 0x1555_5555 + 0x0555_5555) as u32], None));
                            }
                        }
                    }
                } else {
                    scripts.push((vec![0, 0], None));
                    scripts.push((vec![u32::MAX, u32::MAX], None));
                }
                for (script, intended) in scripts {
                    // rebuild (the requester's re-announce perturbs the order)
                    let mut maps = TorrentMaps::new(0);
                    let mut hash = [0x22u8; 20];
                    hash[0] = size as u8;
                    let mut decoy = hash;
                    decoy[19] ^= 0xff;
                    let mut cfg0 = config.clone();
                    cfg0.protocol.max_peers = 0;
                    let mut filler = Scripted::new(vec![]);
                    for m in 0..size {
                        let left = if m % 3 == 0 { 0 } else { 1 };
                        maps.handle_announce_request(&cfg0, &mut filler, vu, addr(ip_of(v6, m)), req(hash, 1 + m as u16, AnnounceEvent::Started, left, None));
                        maps.handle_announce_request(&cfg0, &mut filler, vu, addr(ip_of(v6, m)), req(decoy, 1 + m as u16, AnnounceEvent::Started, 1, None));
                        maps.handle_announce_request(&cfg0, &mut filler, vu, addr(ip_of(!v6, 5000 + m)), req(hash, 10_000 + m as u16, AnnounceEvent::Started, 1, None));
                    }
                    let (req_ip, req_port) = match pos {
                        Some(j) => (ip_of(v6, j), 1 + j as u16),
                        None => (ip_of(v6, 60_000), 60_000u16),
                    };
                    let mut rng = Scripted::new(script.clone());
                    let resp = maps.handle_announce_request(&config, &mut rng, vu, addr(req_ip), req(hash, req_port, AnnounceEvent::Empty, 1, numwant));
                    report.eval();
                    let returned: Vec<PeerKey> = if v6 {
                        resp.peers6.0.iter().map(|p| PeerKey { ip: IpAddr::V6(p.ip_address), port: p.port }).collect()
                    } else {
                        resp.peers.0.iter().map(|p| PeerKey { ip: IpAddr::V4(p.ip_address), port: p.port }).collect()
                    };
                    let wrong_family = if v6 { resp.peers.0.len() } else { resp.peers6.0.len() };
                    let requester = PeerKey { ip: req_ip, port: req_port };
                    let others: BTreeSet<PeerKey> = (0..size).filter(|m| Some(*m) != pos).map(|m| PeerKey { ip: ip_of(v6, m), port: 1 + m as u16 }).collect();
                    let verdict = if wrong_family > 0 { Err(format!("{} peers of the other family returned", wrong_family)) } else { check_peer_list(&returned, &others, &requester, limit, false) };
                    if let Err(e) = verdict {
                        report.violation(
                            "http.select.predicate",
                            "peerlist",
                            format!("size {} limit {} (numwant {:?}, max_peers {}) requester {:?} rng script {:?}: {}", size, limit, numwant, max_peers, pos, script, e),
                            json!({"engine":"http_select","size":size,"limit":limit,"pos":pos,"script":script}),
                        );
                        continue 'sizes;
                    }
                    if over {
                        if intended.is_some() && rng.pos != 0 && (rng.pos != 2 || rng.overrun) {
                            // (pos == 0: inline representation, selection is deterministic)
                            // the code no longer draws exactly two range samples: enumeration is not what we think it is
                            script_mismatch += 1;
                        }
                        report.nontrivial(vcore::fnv(format!("{}/{}/{:?}/{:?}", size, limit, pos, script).as_bytes()));
                        if report.samples.len() < 3 {
                            report.sample(json!({"size":size,"limit":limit,"max_peers":max_peers,"numwant":numwant,"requester_index":pos,"rng_script":script,"intended_offsets":intended,"returned":returned.len()}));
                        }
                    }
                }
            }
        }
    }
    report.add("cases_with_every_offset_pair_enumerated", exhaustive_cases);
    report.add("scripted_draw_count_mismatch", script_mismatch);
    if script_mismatch > 0 && report.violations.is_empty() {
        report.inconclusive(format!("{} scripted runs in which the code did not consume exactly two RNG words: offset enumeration is no longer aligned with the code", script_mismatch));
    }
    report.finish(&args.out());
}
