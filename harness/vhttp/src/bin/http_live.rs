//! live engine, HTTP: the real tracker (`aquatic_http::run`, glommio) in-process,
//! the harness as TCP clients with a framing monitor, replies compared with the
//! reference tracker (sequential phases) or checked for linearizability
//! (concurrent phases).
//!
//! scenarios: framing (C16)  buffers (C18)  address (C03)  access (C11)  expiry (C10)  corpus (C12)

use std::collections::BTreeSet;
use std::net::{IpAddr, Ipv4Addr, Ipv6Addr, SocketAddr};
use std::sync::atomic::{AtomicU64, Ordering};
use std::sync::Mutex;
use std::time::Duration;

use serde_json::json;

use vcore::lin::{self, LKind, LOp, Verdict};
use vcore::model::{check_peer_list, Fam, Model, PeerKey};
use vcore::{Args, Report, SplitMix};
use vhttp::live::*;

fn hash_n(tag: u8, first: u8, n: usize) -> [u8; 20] {
    let mut h = [tag; 20];
    h[0] = first; // decides the swarm worker
    h[1] = n as u8;
    h[2] = (n >> 8) as u8;
    h
}

fn ev_name(e: u8) -> &'static str {
    match e {
        1 => "started",
        2 => "completed",
        3 => "stopped",
        _ => "",
    }
}

struct Cfg {
    s: usize,
    w: usize,
    keep_alive: bool,
    label: String,
}

fn setup(args: &Args, report: &mut Report, tweak: impl FnOnce(&mut aquatic_http::config::Config)) -> Option<(Tracker, Cfg)> {
    let s = args.usize("socket_workers", 1);
    let w = args.usize("swarm_workers", 1);
    let keep_alive = !args.flag("no_keep_alive");
    aquatic_common::verif::set_clock(Some(1000));
    let mut config = base_config(s, w, keep_alive);
    tweak(&mut config);
    match start(config) {
        Ok(t) => Some((t, Cfg { s, w, keep_alive, label: format!("{}x{}{}", s, w, if keep_alive { "ka" } else { "close" }) })),
        Err(e) => {
            report.extra.insert("start_error".into(), json!(e.clone()));
            if e.contains("returned during start-up") {
                report.count("configuration_refused_at_startup");
            } else {
                report.inconclusive(format!("tracker start: {}", e));
            }
            None
        }
    }
}

fn frame_sig(e: &FrameError) -> &'static str {
    match e {
        FrameError::Closed(_) => "http.live.connection_closed_without_reply",
        FrameError::Timeout => "http.live.no_reply",
        FrameError::BadStatus(_) => "http.live.bad_status_line",
        FrameError::BadHeader(_) => "http.live.bad_header",
        FrameError::LengthMismatch(_) => "http.live.content_length_mismatch",
        FrameError::BodyNotBencode(_) => "http.live.body_not_bencode",
    }
}

// ------------------------------------------------------------------------------------------------
// framing + reference equality + worker invisibility (C16)
// ------------------------------------------------------------------------------------------------

fn scenario_framing(args: &Args, report: &mut Report) {
    let max_scrape = args.usize("max_scrape", 3);
    let max_peers = args.usize("max_peers", 5);
    let (tracker, cfg) = match setup(args, report, |c| {
        c.protocol.max_scrape_torrents = max_scrape;
        c.protocol.max_peers = max_peers;
    }) {
        Some(x) => x,
        None => return,
    };
    let mut r = SplitMix::new(args.seed()).fork(0xC16 + cfg.s as u64 * 10 + cfg.w as u64);
    let n_requests = args.usize("requests", 2000);
    let dual_for_v4 = SocketAddr::new(IpAddr::V4(Ipv4Addr::LOCALHOST), tracker.v6.port());
    // actors: (bind ip, listener)
    let actors: Vec<(IpAddr, SocketAddr)> = vec![
        (IpAddr::V4(Ipv4Addr::new(127, 0, 7, 1)), tracker.v4),
        (IpAddr::V4(Ipv4Addr::new(127, 0, 7, 2)), tracker.v4),
        (IpAddr::V4(Ipv4Addr::new(127, 0, 7, 3)), dual_for_v4),
        (IpAddr::V4(Ipv4Addr::new(127, 0, 7, 1)), dual_for_v4), // same host as actor 0 through the other listener
        (IpAddr::V6(Ipv6Addr::LOCALHOST), tracker.v6),
    ];
    // torrents spread over the swarm workers
    let torrents: Vec<[u8; 20]> = (0..6).map(|n| hash_n(0x71, n as u8, n)).collect();
    let mut model = Model::new();
    let mut conns: Vec<Option<Conn>> = actors.iter().map(|_| None).collect();
    let replay_base = json!({"engine":"http_live","scenario":"framing","config":cfg.label,"seed":args.seed()});
    let mut script: Vec<String> = Vec::new();
    let mut long_then_short = 0u64;
    let mut last_len: Vec<usize> = vec![0; actors.len()];

    for i in 0..n_requests {
        if report.num_violations() >= 3 || report.violation_occurrences() >= 8 {
            break;
        }
        // occasionally: hostile traffic on other connections
        if r.chance(1, 12) {
            let target = if r.chance(1, 2) { tracker.v4 } else { tracker.v6 };
            if let Ok(mut bad) = Conn::open(target, None) {
                let kind = r.below(5);
                let payload: Vec<u8> = match kind {
                    0 => r.vec(300),
                    1 => {
                        let mut v = b"GET /announce?info_hash=".to_vec();
                        v.extend(std::iter::repeat(b'a').take(2049));
                        v
                    }
                    2 => b"GET /announce?info_hash=%zz&peer_id=x HTTP/1.1\r\n\r\n".to_vec(),
                    3 => b"POST / HTTP/1.1\r\nContent-Length: 5\r\n\r\nhello".to_vec(),
                    _ => b"GET /announce?info_hash=abc".to_vec(), // never completed
                };
                let _ = bad.send(&payload);
                if kind != 4 {
                    let _ = bad.read_reply(30);
                }
                script.push(format!("#{} hostile connection kind {}", i, kind));
                report.count("hostile_connections");
            }
        }
        let a = r.usize(actors.len());
        let (bind_ip, target) = actors[a];
        let canon = vhttp::canonical_ip(bind_ip);
        let fam = Fam::of(&canon);
        if conns[a].is_none() || !cfg.keep_alive {
            match Conn::open(target, Some(bind_ip)) {
                Ok(c) => conns[a] = Some(c),
                Err(e) => {
                    report.inconclusive(format!("connect failed: {}", e));
                    return;
                }
            }
            last_len[a] = 0;
        }
        let is_announce = r.chance(2, 3);
        let (bytes, desc): (Vec<u8>, String);
        let mut expect_announce: Option<(vcore::model::AnnounceView, PeerKey, usize)> = None;
        let mut expect_scrape: Option<Vec<[u8; 20]>> = None;
        if is_announce {
            let t = r.usize(torrents.len());
            let port = 3000 + r.below(12) as u16;
            let event = *r.pick(&[0u8, 1, 1, 2, 3]);
            let left = *r.pick(&[0u64, 1, 77]);
            let numwant = *r.pick(&[None, Some(0u64), Some(1), Some(2), Some(3), Some(50)]);
            let extra = *r.pick(&["", "&supportcrypto=1", "&key=abcd1234", "&ip=9.9.9.9", "&ipv6=%3A%3A1&no_peer_id=1"]);
            bytes = announce_req(&torrents[t], port, ev_name(event), left, numwant, extra, "");
            desc = format!("#{} actor {} announce t{} port {} event {} left {} numwant {:?}{}", i, a, t, port, ev_name(event), left, numwant, extra);
            let key = PeerKey { ip: canon, port };
            let view = model.announce(torrents[t], key, event == 3, left == 0, u64::MAX, [0; 20]);
            let limit = match numwant {
                None | Some(0) => max_peers,
                Some(n) => (n as usize).min(max_peers),
            };
            expect_announce = Some((view, key, limit));
        } else {
            let n = 1 + r.usize(7);
            let hs: Vec<[u8; 20]> = (0..n).map(|_| if r.chance(1, 6) { hash_n(0x72, r.below(4) as u8, 99) } else { torrents[r.usize(torrents.len())] }).collect();
            bytes = scrape_req(&hs, "");
            desc = format!("#{} actor {} scrape {:?}", i, a, hs.iter().map(|h| h[1]).collect::<Vec<_>>());
            expect_scrape = Some(hs);
        }
        script.push(desc.clone());
        if script.len() > 60 {
            script.remove(0);
        }
        let conn = conns[a].as_mut().unwrap();
        // requests split across TCP segments: the cut position walks over every byte of the request
        let split = r.chance(1, 3);
        let send_res = if split {
            let cut1 = i % bytes.len();
            let mut cuts = vec![cut1];
            if r.chance(1, 2) {
                cuts.push((cut1 + 1 + r.usize(20)).min(bytes.len()));
            }
            report.count("requests_split_across_segments");
            conn.send_split(&bytes, &cuts, Duration::from_millis(if r.chance(1, 4) { 3 } else { 0 }))
        } else {
            conn.send(&bytes)
        };
        let reply = match send_res {
            Err(e) => Err(FrameError::Closed(e.to_string())),
            Ok(()) => conn.read_reply(3000),
        };
        report.eval();
        let mut replay = replay_base.clone();
        replay["script_tail"] = json!(script);
        let reply = match reply {
            Ok(rp) => rp,
            Err(e) => {
                let mut sig = frame_sig(&e).to_string();
                if let Some(hs) = &expect_scrape {
                    // known buffer-size defect has its own signature
                    let distinct: BTreeSet<[u8; 20]> = hs.iter().copied().collect();
                    if distinct.len() >= 50 {
                        sig = "http.reply_exceeds_response_buffer".into();
                    }
                }
                report.violation(&sig, "framing", format!("{} ({}): {:?}", desc, cfg.label, e), replay);
                conns[a] = None;
                continue;
            }
        };
        // stale Content-Length digits: a reply with fewer length digits than the previous one on this connection
        if last_len[a].to_string().len() > reply.content_length.to_string().len() {
            long_then_short += 1;
        }
        last_len[a] = reply.content_length;
        if !cfg.keep_alive {
            if let Err(e) = conn.expect_eof(2000) {
                report.violation("http.live.connection_not_closed_without_keep_alive", "framing", format!("{}: {:?}", desc, e), replay.clone());
            }
            conns[a] = None;
        }
        // reference equality
        match (classify(&reply.body), expect_announce, expect_scrape) {
            (Err(e), _, _) => report.violation("http.live.reply_shape", "reference", format!("{}: reply is bencode but not a tracker reply: {}", desc, e), replay),
            (Ok(Reply::Announce { complete, incomplete, peers4, peers6, .. }), Some((view, key, limit)), _) => {
                if complete != view.seeders || incomplete != view.leechers {
                    report.violation("http.live.announce_counts_differ_from_reference", "reference", format!("{} ({}): complete/incomplete {}/{} reference {}/{}", desc, cfg.label, complete, incomplete, view.seeders, view.leechers), replay.clone());
                }
                let (mine, other) = if fam == Fam::V4 { (&peers4, &peers6) } else { (&peers6, &peers4) };
                if !other.is_empty() {
                    report.violation("http.live.peers_of_other_family", "reference", format!("{}: {} peers of the other family", desc, other.len()), replay.clone());
                }
                if let Err(e) = check_peer_list(mine, &view.others, &key, limit, false) {
                    report.violation("http.live.peer_list_differs_from_reference", "reference", format!("{} ({}): {}", desc, cfg.label, e), replay);
                }
                report.nontrivial(vcore::fnv(format!("announce/{}/{}/{}/{}", cfg.label, view.others.len().min(7), a, split).as_bytes()));
            }
            (Ok(Reply::Scrape(files)), _, Some(hs)) => {
                let want: BTreeSet<[u8; 20]> = distinct_first_n(&hs, max_scrape);
                let got: BTreeSet<[u8; 20]> = files.iter().map(|f| f.0).collect();
                if want != got || files.len() != got.len() {
                    let sig = if got.len() > want.len() && cfg.w > 1 { "http.scrape.limit_applied_per_worker" } else { "http.live.scrape_set_differs_from_reference" };
                    report.violation(sig, "reference", format!("{} ({}): reply lists {} torrents, the reference lists exactly the first {} requested ({} distinct)", desc, cfg.label, got.len(), max_scrape, want.len()), replay.clone());
                }
                for (h, c, inc) in files.iter() {
                    let (s, l) = model.scrape(fam, h);
                    if (*c, *inc) != (s, l) {
                        report.violation("http.live.scrape_counts_differ_from_reference", "reference", format!("{} ({}): torrent {} reported {}/{} reference {}/{}", desc, cfg.label, h[1], c, inc, s, l), replay.clone());
                    }
                }
                let workers_hit: BTreeSet<usize> = hs.iter().map(|h| h[0] as usize % cfg.w).collect();
                report.nontrivial(vcore::fnv(format!("scrape/{}/{}/{}/{}", cfg.label, workers_hit.len(), hs.len() > max_scrape, split).as_bytes()));
                if workers_hit.len() > 1 {
                    report.count("scrapes_spanning_several_swarm_workers");
                }
            }
            (Ok(other), _, _) => report.violation("http.live.wrong_reply_kind", "reference", format!("{}: got {:?}", desc, format!("{:?}", other).chars().take(80).collect::<String>()), replay),
        }
    }
    report.add("long_reply_followed_by_short_one_on_a_kept_alive_connection", long_then_short);

    // concurrent phase: every connection waits for its reply before the next request
    let n_threads = args.usize("threads", 8);
    let rounds = args.usize("rounds", 6);
    static TICK: AtomicU64 = AtomicU64::new(1);
    let mut budget_exhausted = 0;
    for round in 0..rounds {
        let ct: Vec<[u8; 20]> = (0..2).map(|n| hash_n(0x73, (round * 2 + n) as u8, round * 2 + n)).collect();
        let recs: Mutex<Vec<(usize, u64, u64, Result<Reply, String>, String, Option<(usize, PeerKey, bool, bool, usize)>, Vec<usize>)>> = Mutex::new(Vec::new());
        std::thread::scope(|s| {
            for th in 0..n_threads {
                let (ct, recs, tracker) = (&ct, &recs, &tracker);
                let seed = r.next();
                let keep_alive = cfg.keep_alive;
                s.spawn(move || {
                    let mut rr = SplitMix::new(seed);
                    let ip = IpAddr::V4(Ipv4Addr::new(127, 0, 8, 1 + th as u8));
                    let mut conn: Option<Conn> = None;
                    for _ in 0..(2 + rr.usize(3)) {
                        if conn.is_none() {
                            conn = Conn::open(tracker.v4, Some(ip)).ok();
                        }
                        let c = match conn.as_mut() {
                            Some(c) => c,
                            None => return,
                        };
                        let (bytes, meta, scr): (Vec<u8>, Option<(usize, PeerKey, bool, bool, usize)>, Vec<usize>) = if rr.chance(3, 4) {
                            let t = rr.usize(2);
                            let port = 4000 + rr.below(2) as u16;
                            let event = *rr.pick(&[0u8, 1, 3]);
                            let left = rr.below(2);
                            (announce_req(&ct[t], port, ev_name(event), left, Some(50), "", ""), Some((t, PeerKey { ip, port }, event == 3, left == 0, 50)), vec![])
                        } else {
                            let ts: Vec<usize> = (0..(1 + rr.usize(2))).map(|_| rr.usize(2)).collect();
                            (scrape_req(&ts.iter().map(|t| ct[*t]).collect::<Vec<_>>(), ""), None, ts)
                        };
                        let call = TICK.fetch_add(1, Ordering::SeqCst);
                        let res = c.request(&bytes, 15_000);
                        let ret = TICK.fetch_add(1, Ordering::SeqCst);
                        let parsed = match res {
                            Ok(rp) => classify(&rp.body),
                            Err(e) => Err(format!("{:?}", e)),
                        };
                        recs.lock().unwrap().push((th, call, ret, parsed, String::from_utf8_lossy(&bytes[..bytes.len().min(60)]).to_string(), meta, scr));
                        if !keep_alive {
                            conn = None;
                        }
                    }
                });
            }
        });
        let recs = recs.into_inner().unwrap();
        // quiescent read-out
        let mut fin: Vec<(usize, usize)> = Vec::new();
        if let Ok(mut c) = Conn::open(tracker.v4, Some(IpAddr::V4(Ipv4Addr::new(127, 0, 8, 200)))) {
            for t in 0..2 {
                // max_scrape may be small: one hash per request
                let rp = c.request(&scrape_req(&[ct[t]], ""), 15_000).ok().and_then(|x| classify(&x.body).ok());
                if !cfg.keep_alive {
                    c = match Conn::open(tracker.v4, Some(IpAddr::V4(Ipv4Addr::new(127, 0, 8, 200)))) {
                        Ok(c) => c,
                        Err(_) => break,
                    };
                }
                match rp {
                    Some(Reply::Scrape(f)) if f.len() == 1 => fin.push((f[0].1, f[0].2)),
                    _ => fin.push((usize::MAX, 0)),
                }
            }
        }
        for t in 0..2 {
            let mut ops: Vec<LOp> = Vec::new();
            let mut bad: Option<String> = None;
            for (th, call, ret, parsed, req, meta, scr) in recs.iter() {
                match (parsed, meta) {
                    (Err(e), _) => bad = Some(format!("request {:?} of thread {} failed: {}", req, th, e)),
                    (Ok(Reply::Announce { complete, incomplete, peers4, .. }), Some((tt, key, stopped, seeder, limit))) if *tt == t => {
                        ops.push(LOp { actor: *th, call: *call, ret: *ret, kind: LKind::Announce { key: *key, stopped: *stopped, seeder: *seeder, deadline: u64::MAX, seeders: *complete, leechers: *incomplete, peers: peers4.clone(), limit: (*limit).min(max_peers) } });
                    }
                    (Ok(Reply::Scrape(files)), None) => {
                        // a scrape decomposes into one read per requested torrent (within the limit)
                        for tt in scr.iter().take(max_scrape) {
                            if *tt == t {
                                if let Some(f) = files.iter().find(|f| f.0 == ct[t]) {
                                    ops.push(LOp { actor: *th, call: *call, ret: *ret, kind: LKind::Read { seeders: f.1, leechers: f.2 } });
                                }
                            }
                        }
                    }
                    _ => {}
                }
            }
            report.eval();
            if let Some(b) = bad {
                report.violation("http.live.concurrent_request_failed", "framing", format!("concurrent phase ({}): {}", cfg.label, b), replay_base.clone());
                continue;
            }
            if fin.len() == 2 && fin[t].0 != usize::MAX {
                ops.push(LOp { actor: 999, call: u64::MAX - 5, ret: u64::MAX - 4, kind: LKind::Read { seeders: fin[t].0, leechers: fin[t].1 } });
            }
            let out = lin::check(&lin::new_state(), &ops, None, 2_000_000);
            match out.verdict {
                Verdict::Linearizable => {
                    let overlapping = ops.iter().any(|a| ops.iter().any(|b| a.actor != b.actor && a.call < b.ret && b.call < a.ret));
                    if overlapping {
                        report.nontrivial(vcore::fnv(format!("conc/{}/{}/{}", cfg.label, round, t).as_bytes()));
                    }
                }
                Verdict::BudgetExhausted => budget_exhausted += 1,
                Verdict::NotLinearizable => {
                    let mut v = replay_base.clone();
                    v["history"] = json!(ops.iter().map(|o| format!("a{} [{}..{}] {:?}", o.actor, o.call, o.ret, o.kind)).collect::<Vec<_>>());
                    report.violation("http.live.concurrent_history_not_linearizable", "reference", format!("concurrent phase ({}), torrent {}: replies are not those of any sequential reference tracker", cfg.label, t), v);
                }
            }
        }
    }
    report.add("checker_budget_exhausted", budget_exhausted);
    report.sample(json!({"config": cfg.label, "last_requests": script.iter().rev().take(5).collect::<Vec<_>>()}));
    let exited = tracker.exit.lock().unwrap().clone();
    if let Some(e) = exited {
        report.violation("http.live.tracker_exited", "crash", format!("run() returned during the workload: {}", e), replay_base);
    }
}

// ------------------------------------------------------------------------------------------------
// buffers (C18)
// ------------------------------------------------------------------------------------------------

fn scenario_buffers(args: &Args, report: &mut Report) {
    let max_peers = args.usize("max_peers", 50);
    let max_scrape = args.usize("max_scrape", 100);
    let v6 = args.flag("v6");
    let digits = args.usize("digits", 1);
    let (tracker, cfg) = match setup(args, report, |c| {
        c.protocol.max_peers = max_peers;
        c.protocol.max_scrape_torrents = max_scrape;
    }) {
        Some(x) => x,
        None => {
            if report.counter("configuration_refused_at_startup") > 0 {
                report.eval();
                report.nontrivial(vcore::fnv(format!("refused/{}/{}", max_peers, max_scrape).as_bytes()));
                report.nontrivial(vcore::fnv(format!("refused2/{}/{}", max_peers, max_scrape).as_bytes()));
                report.sample(json!({"max_peers": max_peers, "max_scrape_torrents": max_scrape, "outcome": "configuration refused at start-up"}));
            }
            return;
        }
    };
    let case = json!({"engine":"http_live","scenario":"buffers","max_peers":max_peers,"max_scrape":max_scrape,"v6":v6,"digits":digits,"config":cfg.label});
    let (ip, target): (IpAddr, SocketAddr) = if v6 { (IpAddr::V6(Ipv6Addr::LOCALHOST), tracker.v6) } else { (IpAddr::V4(Ipv4Addr::new(127, 0, 9, 1)), tracker.v4) };
    let open = || Conn::open(target, Some(ip));
    let mut c = match open() {
        Ok(c) => c,
        Err(e) => {
            report.inconclusive(format!("connect: {}", e));
            return;
        }
    };
    // largest swarm: N ports from one host
    let n = max_peers + 5;
    let h = hash_n(0x74, 0, 1);
    for k in 0..n {
        if c.request(&announce_req(&h, 1 + k as u16, "started", 1, Some(1), "", ""), 15_000).is_err() {
            report.inconclusive("set-up announce failed");
            return;
        }
    }
    report.eval();
    match c.request(&announce_req(&h, 65000, "started", 1, None, "", ""), 15_000) {
        Ok(rp) => match classify(&rp.body) {
            Ok(Reply::Announce { peers4, peers6, .. }) => {
                let got = peers4.len() + peers6.len();
                if got + 1 < max_peers.min(n) {
                    report.violation("http.live.reply_cut_short", "buffers", format!("{} peers delivered, limit {} with {} stored", got, max_peers, n), case.clone());
                }
                report.nontrivial(vcore::fnv(format!("announce/{}/{}/{}", max_peers, v6, got).as_bytes()));
            }
            other => report.violation("http.live.wrong_reply_kind", "buffers", format!("{:?}", other), case.clone()),
        },
        Err(e) => {
            let body = 68 + max_peers.min(n) * if v6 { 18 } else { 6 };
            report.violation("http.reply_exceeds_response_buffer", "buffers", format!("accepted configuration max_peers={} ({}): worst-case announce reply (about {} body bytes) not delivered: {:?}", max_peers, if v6 { "ipv6" } else { "ipv4" }, body, e), case.clone());
            c = match open() {
                Ok(c) => c,
                Err(_) => return,
            };
        }
    }
    // scrapes: the longest request that fits the 2048-byte request buffer carries 65 minimal-length hashes
    // counters with 1..3 digits: torrents get 1, 10 or 100 peers
    let per = [1usize, 10, 100][digits.min(3) - 1];
    let n_hashes_max = 65usize.min(max_scrape);
    let mut hashes: Vec<[u8; 20]> = Vec::new();
    for t in 0..n_hashes_max {
        // minimal-length encoding: unreserved ASCII bytes only (31 bytes per parameter)
        let mut hh = [b'a'; 20];
        hh[0] = b'A' + (t / 26) as u8;
        hh[1] = b'a' + (t % 26) as u8;
        hashes.push(hh);
    }
    let raw_scrape = |hs: &[[u8; 20]]| -> Vec<u8> {
        let q: Vec<String> = hs.iter().map(|h| format!("info_hash={}", String::from_utf8_lossy(h))).collect();
        format!("GET /scrape?{} HTTP/1.1\r\n\r\n", q.join("&")).into_bytes()
    };
    let populate = if per > 1 { args.usize("populate", 8).min(n_hashes_max) } else { n_hashes_max };
    for (t, hh) in hashes.iter().enumerate().take(populate) {
        for k in 0..per {
            let q = format!("GET /announce?info_hash={}&peer_id=-VF0001-abcdefghijkl&port={}&uploaded=0&downloaded=0&left=1&numwant=1&compact=1 HTTP/1.1\r\n\r\n", String::from_utf8_lossy(hh), 1 + k);
            if c.request(q.as_bytes(), 15_000).is_err() {
                report.inconclusive(format!("set-up announce for scrape torrent {} failed", t));
                return;
            }
        }
    }
    for n_h in [1usize, 20, 40, 57, 58, 60, 65] {
        let n_h = n_h.min(n_hashes_max);
        if n_h == 0 {
            continue;
        }
        let req = raw_scrape(&hashes[..n_h]);
        if req.len() > 2048 {
            continue;
        }
        report.eval();
        match c.request(&req, 15_000) {
            Ok(rp) => match classify(&rp.body) {
                Ok(Reply::Scrape(files)) => {
                    if files.len() != n_h {
                        report.violation("http.live.reply_cut_short", "buffers", format!("scrape of {} hashes answered with {} entries", n_h, files.len()), case.clone());
                    }
                    report.nontrivial(vcore::fnv(format!("scrape/{}/{}/{}", n_h, digits, rp.raw_len).as_bytes()));
                }
                other => report.violation("http.live.wrong_reply_kind", "buffers", format!("{:?}", other), case.clone()),
            },
            Err(e) => {
                report.violation("http.reply_exceeds_response_buffer", "buffers", format!("accepted configuration (max_scrape_torrents={}): scrape of {} hashes ({}-byte request) not answered: {:?}", max_scrape, n_h, req.len(), e), case.clone());
                c = match open() {
                    Ok(c) => c,
                    Err(_) => return,
                };
            }
        }
    }
    report.sample(json!({"case": case, "swarm": n}));
}

// ------------------------------------------------------------------------------------------------
// address (C03): TCP peer address; reverse proxy header
// ------------------------------------------------------------------------------------------------

fn scenario_address(args: &Args, report: &mut Report) {
    let proxy = args.flag("proxy");
    let (tracker, cfg) = match setup(args, report, |c| {
        c.protocol.max_peers = 100;
        c.network.runs_behind_reverse_proxy = proxy;
        c.network.reverse_proxy_ip_header_name = "X-Forwarded-For".into();
    }) {
        Some(x) => x,
        None => return,
    };
    let mut r = SplitMix::new(args.seed()).fork(0xC0316);
    let case = json!({"engine":"http_live","scenario":"address","proxy":proxy,"config":cfg.label});
    let dual_for_v4 = SocketAddr::new(IpAddr::V4(Ipv4Addr::LOCALHOST), tracker.v6.port());
    for round in 0..args.usize("rounds", 10) {
        let h = hash_n(0x75, round as u8, round);
        let mut exp4: BTreeSet<PeerKey> = BTreeSet::new();
        let mut exp6: BTreeSet<PeerKey> = BTreeSet::new();
        for k in 0..4 {
            // the real network source of this announce
            let (bind_ip, target): (IpAddr, SocketAddr) = match k {
                0 => (IpAddr::V4(Ipv4Addr::new(127, 0, 10, 1)), tracker.v4),
                1 => (IpAddr::V4(Ipv4Addr::new(127, 0, 10, 1)), dual_for_v4),
                2 => (IpAddr::V4(Ipv4Addr::new(127, 0, 10, 2)), dual_for_v4),
                _ => (IpAddr::V6(Ipv6Addr::LOCALHOST), tracker.v6),
            };
            let port = 2000 + r.below(30000) as u16;
            let mut c = match Conn::open(target, Some(bind_ip)) {
                Ok(c) => c,
                Err(e) => {
                    report.inconclusive(format!("connect: {}", e));
                    return;
                }
            };
            let (headers, real_ip): (String, IpAddr) = if proxy {
                // the "proxy" (this harness) appends the peer's address as the last value of the last occurrence
                let client: IpAddr = *r.pick(&["10.1.2.3".parse().unwrap(), "10.1.2.4".parse().unwrap(), "fd00::77".parse().unwrap(), "::ffff:10.1.2.3".parse().unwrap()]);
                let layouts = [
                    format!("X-Forwarded-For: {}\r\n", client),
                    format!("X-Forwarded-For: 1.1.1.1, 2.2.2.2,{}\r\n", client),
                    format!("X-Forwarded-For: 6.6.6.6\r\nAccept: */*\r\nX-Forwarded-For: 7.7.7.7 ,   {}  \r\n", client),
                    format!("x-other: 1\r\nX-Forwarded-For: 8.8.8.8\r\nX-Forwarded-For:{}\r\nUser-Agent: t\r\n", client),
                ];
                (r.pick(&layouts).clone(), client)
            } else {
                (String::new(), bind_ip)
            };
            let extra = *r.pick(&["", "&ip=9.9.9.9", "&ipv4=9.9.9.9&ipv6=%3A%3A9"]);
            let rp = c.request(&announce_req(&h, port, "started", 1, Some(50), extra, &headers), 15_000);
            report.eval();
            if let Err(e) = rp {
                report.violation("http.live.announce_failed", "address", format!("{:?}", e), case.clone());
                continue;
            }
            let canon = vhttp::canonical_ip(real_ip);
            let key = PeerKey { ip: canon, port };
            if canon.is_ipv4() {
                exp4.insert(key);
            } else {
                exp6.insert(key);
            }
            report.nontrivial(vcore::fnv(format!("src/{}/{}/{}", k, proxy, canon.is_ipv4()).as_bytes()));
        }
        // one persistent (keep-alive) connection carrying the announces of several clients, as an upstream connection
        // of a reverse proxy does: each request is judged by its own header (proxy) / by the connection's peer (direct)
        if cfg.keep_alive {
            let bind_ip = IpAddr::V4(Ipv4Addr::new(127, 0, 10, 3));
            if let Ok(mut c) = Conn::open(tracker.v4, Some(bind_ip)) {
                let clients: [IpAddr; 4] = ["10.2.0.1".parse().unwrap(), "10.2.0.2".parse().unwrap(), "fd00::22".parse().unwrap(), "10.2.0.3".parse().unwrap()];
                let start = r.usize(4);
                for j in 0..3 {
                    let client = clients[(start + j) % 4];
                    let port = 40000 + (round * 8 + j) as u16;
                    let (headers, real_ip) = if proxy {
                        (if j == 1 { format!("X-Forwarded-For: 5.5.5.5\r\nX-Forwarded-For: 4.4.4.4, {}\r\n", client) } else { format!("X-Forwarded-For: {}\r\n", client) }, client)
                    } else {
                        (String::new(), bind_ip)
                    };
                    let rp = c.request(&announce_req(&h, port, "started", 1, Some(50), "", &headers), 15_000);
                    report.eval();
                    if let Err(e) = rp {
                        report.violation("http.live.announce_failed", "address", format!("request {} on a keep-alive connection: {:?}", j, e), case.clone());
                        break;
                    }
                    let canon = vhttp::canonical_ip(real_ip);
                    let key = PeerKey { ip: canon, port };
                    if canon.is_ipv4() {
                        exp4.insert(key);
                    } else {
                        exp6.insert(key);
                    }
                    report.nontrivial(vcore::fnv(format!("keepalive/{}/{}/{}", j, proxy, canon.is_ipv4()).as_bytes()));
                }
            }
        }
        // observers of each family
        for v6obs in [false, true] {
            let (bind_ip, target) = if v6obs { (IpAddr::V6(Ipv6Addr::LOCALHOST), tracker.v6) } else { (IpAddr::V4(Ipv4Addr::new(127, 0, 10, 9)), tracker.v4) };
            let mut c = match Conn::open(target, Some(bind_ip)) {
                Ok(c) => c,
                Err(_) => continue,
            };
            let (headers, obs_ip): (String, IpAddr) = if proxy {
                let ip: IpAddr = if v6obs { "fd00::99".parse().unwrap() } else { "10.9.9.9".parse().unwrap() };
                (format!("X-Forwarded-For: {}\r\n", ip), ip)
            } else {
                (String::new(), bind_ip)
            };
            let obs_port = 64000 + round as u16;
            let rp = c.request(&announce_req(&h, obs_port, "started", 1, Some(100), "", &headers), 15_000);
            report.eval();
            let expected = if obs_ip.is_ipv4() { &exp4 } else { &exp6 };
            match rp.map_err(|e| format!("{:?}", e)).and_then(|x| classify(&x.body)) {
                Ok(Reply::Announce { peers4, peers6, .. }) => {
                    let got: BTreeSet<PeerKey> = peers4.iter().chain(peers6.iter()).copied().collect();
                    if got != *expected {
                        let sig = if got.iter().any(|k| k.ip.to_string().contains("9.9.9.9")) { "http.live.in_request_ip_honoured" } else if proxy { "http.live.proxy_header_address_differs" } else { "http.live.handed_out_addresses_differ" };
                        report.violation(sig, "address", format!("observer ({}) was handed {:?}, real sources are {:?}", if v6obs { "v6" } else { "v4" }, got, expected), case.clone());
                    }
                }
                other => report.violation("http.live.wrong_reply_kind", "address", format!("{:?}", other), case.clone()),
            }
            let mut c2 = Conn::open(target, Some(bind_ip)).unwrap();
            let _ = c2.request(&announce_req(&h, obs_port, "stopped", 1, Some(0), "", &headers), 15_000);
        }
        if round == 0 {
            report.sample(json!({"proxy": proxy, "expected_v4": format!("{:?}", exp4), "expected_v6": format!("{:?}", exp6)}));
        }
    }
}

// ------------------------------------------------------------------------------------------------
// access (C11), expiry (C10)
// ------------------------------------------------------------------------------------------------

fn scenario_access(args: &Args, report: &mut Report) {
    let deny = args.get("mode") == Some("deny");
    let tmp = format!("{}/http_access_{}", args.str("tmpdir", "/verif/evidence/tmp"), std::process::id());
    std::fs::create_dir_all(&tmp).unwrap();
    let list_path = format!("{}/list.txt", tmp);
    // hashes on different swarm workers
    let (h1, h2, h3) = (hash_n(0x76, 0, 1), hash_n(0x76, 1, 2), hash_n(0x76, 2, 3));
    let write_list = |hs: &[[u8; 20]]| std::fs::write(&list_path, hs.iter().map(|h| format!("{}\n", vcore::hex(h))).collect::<String>()).unwrap();
    write_list(&[h1]);
    let lp = list_path.clone();
    let (tracker, cfg) = match setup(args, report, move |c| {
        c.access_list.mode = if deny { aquatic_common::access_list::AccessListMode::Deny } else { aquatic_common::access_list::AccessListMode::Allow };
        c.access_list.path = lp.into();
    }) {
        Some(x) => x,
        None => return,
    };
    let case = json!({"engine":"http_live","scenario":"access","mode": if deny {"deny"} else {"allow"},"config":cfg.label});
    let permitted = |listed: bool| if deny { !listed } else { listed };
    let ip = IpAddr::V4(Ipv4Addr::new(127, 0, 11, 1));
    let mut port = 100u16;
    let mut announce = |report: &mut Report, h: &[u8; 20], listed: bool, phase: &str| {
        port += 1;
        let mut c = Conn::open(tracker.v4, Some(ip)).unwrap();
        let rp = c.request(&announce_req(h, port, "started", 1, None, "", ""), 15_000).map_err(|e| format!("{:?}", e)).and_then(|x| classify(&x.body));
        report.eval();
        match (&rp, permitted(listed)) {
            (Ok(Reply::Announce { .. }), true) | (Ok(Reply::Failure(_)), false) => {}
            (other, ok) => report.violation(if ok { "http.live.permitted_announce_refused" } else { "http.live.forbidden_announce_accepted" }, "access", format!("{}: {} hash answered with {:?}", phase, if listed { "listed" } else { "unlisted" }, other), case.clone()),
        }
    };
    let scrape1 = |h: &[u8; 20]| -> Option<usize> {
        let mut c = Conn::open(tracker.v4, Some(ip)).ok()?;
        match c.request(&scrape_req(&[*h], ""), 15_000).ok().and_then(|x| classify(&x.body).ok()) {
            Some(Reply::Scrape(f)) if f.len() == 1 => Some(f[0].1 + f[0].2),
            _ => None,
        }
    };
    // One kept-alive connection, opened before any reload, carries an announce of every torrent in every phase (followed by
    // 'stopped' when it was accepted, so that the stored counts stay what the fresh-connection announces made them):
    // decisions must follow the list in force for a client session that predates the reload too.
    let mut kept: Option<Conn> = Conn::open(tracker.v4, Some(ip)).ok();
    let mut kept_round = |report: &mut Report, listed: [bool; 3], phase: &str| {
        for (i, h) in [h1, h2, h3].iter().enumerate() {
            let c = match kept.as_mut() {
                Some(c) => c,
                None => return,
            };
            let rp = c.request(&announce_req(h, 77, if i == 1 { "" } else { "started" }, 1, None, "", ""), 15_000).map_err(|e| format!("{:?}", e)).and_then(|x| classify(&x.body));
            report.eval();
            report.count("access.announce_on_kept_connection");
            match (&rp, permitted(listed[i])) {
                (Ok(Reply::Announce { .. }), true) => {
                    let _ = c.request(&announce_req(h, 77, "stopped", 1, None, "", ""), 15_000);
                }
                (Ok(Reply::Failure(_)), false) => {}
                (Err(e), _) if e.contains("closed") || e.contains("Closed") || e.contains("Eof") || e.contains("EOF") => {
                    // keep-alive may be off in this configuration: the connection is simply gone; reopen
                    report.count("access.kept_connection_reopened");
                    kept = Conn::open(tracker.v4, Some(ip)).ok();
                }
                (other, ok) => report.violation(if ok { "http.live.permitted_announce_refused" } else { "http.live.forbidden_announce_accepted" }, "access", format!("{}: {} hash announced on the kept-alive connection opened before the reload answered with {:?}", phase, if listed[i] { "listed" } else { "unlisted" }, other), case.clone()),
            }
        }
    };
    announce(report, &h1, true, "initial list");
    announce(report, &h2, false, "initial list");
    announce(report, &h3, false, "initial list");
    kept_round(report, [true, false, false], "initial list");
    for (h, listed) in [(h1, true), (h2, false), (h3, false)] {
        let want = if permitted(listed) { 1 } else { 0 };
        report.eval();
        if scrape1(&h) != Some(want) {
            report.violation("http.live.refused_announce_created_state", "access", format!("initial list: scrape shows {:?}, expected {}", scrape1(&h), want), case.clone());
        }
    }
    report.nontrivial(vcore::fnv(format!("initial/{}", deny).as_bytes()));
    write_list(&[h2]);
    let ok0 = counter("access_list.update.ok");
    unsafe {
        libc::kill(libc::getpid(), libc::SIGUSR1);
    }
    if !vcore::net::wait_until(5000, || counter("access_list.update.ok") > ok0) {
        report.inconclusive("reload not observed");
        return;
    }
    announce(report, &h2, true, "after reload");
    announce(report, &h1, false, "after reload");
    kept_round(report, [false, true, false], "after reload, before the cleaning pass");
    if !wait_cleans(2, cfg.w) {
        report.inconclusive("no cleaning pass observed (http.clean_done)");
        return;
    }
    kept_round(report, [false, true, false], "after reload and cleaning pass");
    let expect_after: Vec<([u8; 20], usize)> = if deny { vec![(h1, 1), (h2, 0), (h3, 1)] } else { vec![(h1, 0), (h2, 1), (h3, 0)] };
    for (h, want) in expect_after {
        report.eval();
        let got = scrape1(&h);
        if got != Some(want) {
            report.violation(if got.unwrap_or(0) > want { "http.live.forbidden_torrent_survived_clean" } else { "http.live.permitted_torrent_removed_by_clean" }, "access", format!("after reload + cleaning pass: scrape {:?}, expected {}", got, want), case.clone());
        }
    }
    report.nontrivial(vcore::fnv(format!("reload/{}", deny).as_bytes()));
    for (k, bad) in ["zz\n".to_string(), format!("{}\n{}x\n", vcore::hex(&h3), vcore::hex(&h1)), "MISSING".to_string()].iter().enumerate() {
        if bad == "MISSING" {
            let _ = std::fs::remove_file(&list_path);
        } else {
            std::fs::write(&list_path, bad).unwrap();
        }
        let (e0, o0) = (counter("access_list.update.err"), counter("access_list.update.ok"));
        unsafe {
            libc::kill(libc::getpid(), libc::SIGUSR1);
        }
        if !vcore::net::wait_until(5000, || counter("access_list.update.err") > e0 || counter("access_list.update.ok") > o0) {
            report.inconclusive("failing reload not observed");
            return;
        }
        report.eval();
        if counter("access_list.update.ok") > o0 {
            report.violation("http.live.malformed_list_accepted", "access", format!("reload #{} of a malformed / missing file succeeded", k), case.clone());
        }
        announce(report, &h2, true, "after failed reload");
        announce(report, &h1, false, "after failed reload");
        announce(report, &h3, false, "after failed reload");
        kept_round(report, [false, true, false], "after failed reload");
        report.nontrivial(vcore::fnv(format!("failed/{}/{}", k, deny).as_bytes()));
    }
    report.sample(json!({"mode": if deny {"deny"} else {"allow"}, "config": cfg.label}));
    let _ = std::fs::remove_dir_all(&tmp);
}

// ------------------------------------------------------------------------------------------------
// kept-alive connections over time (C16: "the connection stays usable when keep-alive is on")
// ------------------------------------------------------------------------------------------------

/// A kept-alive connection may be closed by the tracker only after `max_connection_idle` seconds (of the tracker's own
/// whole-second clock) without a request. Under the mock clock: connections that keep making requests at gaps shorter
/// than the limit must survive any number of connection-cleaning passes, however the clock moves between the passes
/// (the cleaning interval may legally exceed the idle limit). The clock is moved in two steps inside one cleaning
/// interval - request in the middle - so that a deadline computed from anything but the request's own instant is
/// exposed (seeded C16c cached the deadline of the previous cleaning pass). Decided on hook counters
/// (`http.connections_cleaned` per socket worker), never on a quiet period.
fn scenario_keepalive(args: &Args, report: &mut Report) {
    let idle = args.u64("idle", 4) as u32;
    let interval = args.u64("interval", 3);
    let rounds = args.usize("rounds", 6);
    let (tracker, cfg) = match setup(args, report, |c| {
        c.cleaning.max_connection_idle = idle;
        c.cleaning.connection_cleaning_interval = interval;
    }) {
        Some(x) => x,
        None => return,
    };
    if !cfg.keep_alive {
        report.inconclusive("keepalive scenario needs keep_alive = true");
        return;
    }
    let case = json!({"engine":"http_live","scenario":"keepalive","config":cfg.label,"max_connection_idle":idle,"connection_cleaning_interval":interval});
    let wait_pass = |n: u64| vhttp::live::wait_all_threads("http.connections_cleaned", n, cfg.s, 60_000);
    let h = hash_n(0x79, 0, 1);
    // several busy connections (so that every socket worker holds some), one per "client"
    let n_conns = 2 * cfg.s + 2;
    let mut conns: Vec<Conn> = Vec::new();
    for k in 0..n_conns {
        let ip = IpAddr::V4(Ipv4Addr::new(127, 0, 13, 1 + k as u8));
        match Conn::open(tracker.v4, Some(ip)) {
            Ok(c) => conns.push(c),
            Err(e) => {
                report.inconclusive(format!("connect: {:?}", e));
                return;
            }
        }
    }
    let mut t = 1000u32;
    let mut request_all = |report: &mut Report, conns: &mut Vec<Conn>, t: u32, phase: &str| -> bool {
        let mut ok = true;
        for (k, c) in conns.iter_mut().enumerate() {
            let rp = c.request(&announce_req(&h, 7000 + k as u16, "", 1, None, "", ""), 15_000);
            report.eval();
            match rp.map_err(|e| format!("{:?}", e)).and_then(|x| classify(&x.body)) {
                Ok(Reply::Announce { .. }) => {}
                other => {
                    ok = false;
                    report.violation("http.live.busy_keepalive_connection_lost", "framing", format!("{} (clock {}): connection {} made a request {} s ago at most (limit {} s) but its next request got {:?}", phase, t, k, idle / 2, idle, other), case.clone());
                }
            }
        }
        ok
    };
    if !wait_pass(1) {
        report.inconclusive("no connection cleaning pass observed (http.connections_cleaned)");
        return;
    }
    if !request_all(report, &mut conns, t, "first request") {
        return;
    }
    let half = idle / 2; // gaps of idle/2 seconds: always well inside the limit
    for round in 0..rounds {
        // a pass has just happened: the next one is `interval` real seconds away. Inside that window: clock +half, request,
        // clock +half again (so the coming pass sees a clock `idle` seconds past the previous pass but only `half` past the
        // last request of every connection)
        t += half;
        aquatic_common::verif::set_clock(Some(t));
        if !request_all(report, &mut conns, t, &format!("round {} mid-interval request", round)) {
            return;
        }
        t += idle - half;
        aquatic_common::verif::set_clock(Some(t));
        if !wait_pass(1) {
            report.inconclusive("no connection cleaning pass observed (http.connections_cleaned)");
            return;
        }
        // every connection was used `idle - half` < idle seconds ago: all must still be usable
        if !request_all(report, &mut conns, t, &format!("round {} after the cleaning pass", round)) {
            return;
        }
        report.nontrivial(vcore::fnv(format!("keepalive/{}/{}", cfg.label, round).as_bytes()));
        report.count("keepalive.rounds_survived");
    }
    // and the other direction is only observed, not demanded: an idle connection is eventually closed
    t += 3 * idle;
    aquatic_common::verif::set_clock(Some(t));
    let _ = wait_pass(2);
    let closed = conns.iter_mut().filter_map(|c| c.request(&announce_req(&h, 7999, "", 1, None, "", ""), 3_000).err()).count();
    report.add("observation.idle_connections_closed_after_3x_limit", closed as u64);
    report.sample(json!({"case": case, "connections": n_conns, "rounds": rounds}));
}

fn scenario_expiry(args: &Args, report: &mut Report) {
    let age = 30u32;
    let (tracker, cfg) = match setup(args, report, |c| c.cleaning.max_peer_age = age) {
        Some(x) => x,
        None => return,
    };
    let case = json!({"engine":"http_live","scenario":"expiry","config":cfg.label});
    let ip = IpAddr::V4(Ipv4Addr::new(127, 0, 12, 1));
    let wait_sample = |_w: usize| vhttp::live::wait_time_refreshed();
    let t0 = 5000u32;
    aquatic_common::verif::set_clock(Some(t0));
    if !wait_sample(cfg.w) {
        report.inconclusive("no time sample refresh observed (http.time_refreshed)");
        return;
    }
    // five peers (heap representation) on one torrent, one (inline) on another, on different swarm workers
    let cases = [(hash_n(0x77, 0, 1), 5usize, 0u64), (hash_n(0x77, 1, 2), 1usize, 1u64)];
    for (h, n, left) in cases.iter() {
        for k in 0..*n {
            let mut c = Conn::open(tracker.v4, Some(ip)).unwrap();
            if c.request(&announce_req(h, 3000 + k as u16, "started", *left, Some(0), "", ""), 15_000).is_err() {
                report.inconclusive("set-up announce failed");
                return;
            }
        }
    }
    aquatic_common::verif::set_clock(Some(t0 + 10));
    if !wait_sample(cfg.w) {
        report.inconclusive("no time sample refresh observed");
        return;
    }
    {
        let mut c = Conn::open(tracker.v4, Some(ip)).unwrap();
        let _ = c.request(&announce_req(&cases[0].0, 3000, "", 0, Some(0), "", ""), 15_000);
    }
    let scrape1 = |h: &[u8; 20]| -> Option<usize> {
        let mut c = Conn::open(tracker.v4, Some(ip)).ok()?;
        match c.request(&scrape_req(&[*h], ""), 15_000).ok().and_then(|x| classify(&x.body).ok()) {
            Some(Reply::Scrape(f)) if f.len() == 1 => Some(f[0].1 + f[0].2),
            _ => None,
        }
    };
    let steps: Vec<(u32, usize, usize)> = vec![(t0 + age - 1, 5, 1), (t0 + age, 1, 0), (t0 + age + 9, 1, 0), (t0 + age + 10, 0, 0)];
    for (clock, w1, w2) in steps {
        aquatic_common::verif::set_clock(Some(clock));
        if !wait_cleans(2, cfg.w) {
            report.inconclusive("no cleaning pass observed");
            return;
        }
        for (h, want) in [(cases[0].0, w1), (cases[1].0, w2)] {
            let got = scrape1(&h);
            report.eval();
            if got != Some(want) {
                report.violation(if got.unwrap_or(0) < want { "http.live.peer_expired_early" } else { "http.live.peer_survived_deadline" }, "expiry", format!("clock {} (announce at {}, one re-announce at {}, max_peer_age {}): scrape {:?}, expected {}", clock, t0, t0 + 10, age, got, want), case.clone());
            }
            report.nontrivial(vcore::fnv(format!("{}/{}", clock - t0, want).as_bytes()));
        }
    }
    report.sample(json!({"max_peer_age": age, "announce_clock": t0, "config": cfg.label}));
}

// ------------------------------------------------------------------------------------------------
// corpus (C12 live): hostile bytes at the running tracker, then liveness and state comparison
// ------------------------------------------------------------------------------------------------

fn scenario_corpus(args: &Args, report: &mut Report) {
    let (tracker, cfg) = match setup(args, report, |_| {}) {
        Some(x) => x,
        None => return,
    };
    let mut r = SplitMix::new(args.seed()).fork(0xC1216);
    let case = json!({"engine":"http_live","scenario":"corpus","config":cfg.label,"seed":args.seed()});
    let h = hash_n(0x78, 0, 1);
    let ip = IpAddr::V4(Ipv4Addr::new(127, 0, 13, 1));
    // known state first
    for k in 0..3 {
        let mut c = Conn::open(tracker.v4, Some(ip)).unwrap();
        let _ = c.request(&announce_req(&h, 100 + k, "started", k as u64 % 2, Some(0), "", ""), 15_000);
    }
    let n = args.usize("cases", 15_000);
    let base = announce_req(&h, 999, "started", 1, Some(5), "", "");
    for i in 0..n {
        let mut b = match r.below(6) {
            0 => base.clone(),
            1 => scrape_req(&[h, hash_n(0x78, 1, 2)], ""),
            2 => b"GET /announce?".to_vec(),
            3 => r.vec(64),
            4 => format!("GET /announce?info_hash={}&peer_id={}&port=1&uploaded=1&downloaded=1&left=1 HTTP/1.1\r\n\r\n", "%".repeat(r.usize(80)), "a".repeat(r.usize(300))).into_bytes(),
            _ => format!("GET /scrape?{} HTTP/1.1\r\n\r\n", "info_hash=&".repeat(r.usize(150))).into_bytes(),
        };
        match r.below(6) {
            0 => {
                let n = r.usize(b.len() + 1);
                b.truncate(n)
            }
            1 => {
                if !b.is_empty() {
                    let bit = r.usize(b.len() * 8);
                    b[bit / 8] ^= 1 << (bit % 8)
                }
            }
            2 => {
                let extra = r.usize(2100);
                b.extend(std::iter::repeat(b'x').take(extra))
            }
            3 => {
                let pos = r.usize(b.len() + 1);
                for (k, x) in b"\xff\xfe%%&=&=\0".iter().enumerate() {
                    b.insert((pos + k).min(b.len()), *x)
                }
            }
            _ => {}
        }
        // requests that would re-announce port 999 validly are allowed to succeed: they target their own key only
        if let Ok(mut c) = Conn::open(if i % 2 == 0 { tracker.v4 } else { tracker.v6 }, None) {
            let _ = c.send(&b);
            let _ = c.read_reply(if i % 50 == 0 { 100 } else { 5 });
        }
        report.eval();
        if i % 200 == 0 {
            let exited = tracker.exit.lock().unwrap().clone();
            if let Some(e) = exited {
                report.violation("http.live.tracker_exited", "crash", format!("run() returned after hostile input #{}: {}", i, e), case.clone());
                return;
            }
        }
        report.nontrivial(vcore::fnv(&b[..b.len().min(24)]));
    }
    // liveness + state: the three peers are still there (port 999 may have joined through valid mutations)
    let mut c = Conn::open(tracker.v4, Some(ip)).unwrap();
    report.eval();
    match c.request(&scrape_req(&[h], ""), 15_000).map_err(|e| format!("{:?}", e)).and_then(|x| classify(&x.body)) {
        Ok(Reply::Scrape(f)) if f.len() == 1 && f[0].1 == 2 && (f[0].2 == 1 || f[0].2 == 2) => {}
        other => report.violation("http.live.state_changed_or_dead_after_hostile_input", "crash", format!("after {} hostile inputs the scrape of the known torrent gives {:?}", n, other), case.clone()),
    }
    report.sample(json!({"config": cfg.label, "hostile_inputs": n}));
}

fn main() {
    vcore::init_logger_from_env();
    let args = Args::parse();
    let scenario = args.str("scenario", "framing");
    let mut report = Report::new("http_live", "in-process http tracker + TCP clients with a framing monitor; sequential phases compared with the reference tracker, concurrent phases checked for linearizability; distinct = (request kind, configuration, swarm size class / workers spanned, split)");
    report.max_samples = 6;
    match scenario.as_str() {
        "framing" => scenario_framing(&args, &mut report),
        "buffers" => scenario_buffers(&args, &mut report),
        "address" => scenario_address(&args, &mut report),
        "access" => scenario_access(&args, &mut report),
        "keepalive" => scenario_keepalive(&args, &mut report),
        "expiry" => scenario_expiry(&args, &mut report),
        "corpus" => scenario_corpus(&args, &mut report),
        other => report.inconclusive(format!("unknown scenario {}", other)),
    }
    // requests that timed out while the tracker did not answer canary requests either cannot be judged
    let undecided = vhttp::live::UNDECIDED.load(std::sync::atomic::Ordering::SeqCst);
    if undecided > 0 {
        let before = report.violations.len();
        report.violations.retain(|_, (v, _)| !v.detail.contains("Timeout"));
        report.inconclusive(format!("{} request(s) timed out while canary requests were not answered either (machine overloaded, or the whole tracker is gone): {} timeout verdict(s) withdrawn", undecided, before - report.violations.len()));
    }
    report.add("replies_later_than_expected_but_before_the_canaries_finished", vhttp::live::LATE_REPLIES.load(std::sync::atomic::Ordering::SeqCst));
    report.finish(&args.out());
}
