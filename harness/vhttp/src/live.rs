//! In-process HTTP tracker + a small HTTP/1.1 client with a framing monitor

use std::collections::BTreeSet;
use std::io::{Read, Write};
use std::net::{IpAddr, Ipv4Addr, Ipv6Addr, SocketAddr, SocketAddrV4, SocketAddrV6, TcpStream};
use std::sync::{Arc, Mutex};
use std::time::{Duration, Instant};

use aquatic_http::config::Config;
use vcore::bencode::{self, B};
use vcore::model::PeerKey;

pub struct Tracker {
    pub v4: SocketAddr,
    pub v6: SocketAddr,
    pub config: Config,
    pub exit: Arc<Mutex<Option<String>>>,
}

pub fn base_config(socket_workers: usize, swarm_workers: usize, keep_alive: bool) -> Config {
    let p4 = vcore::net::free_tcp_port();
    let mut p6 = vcore::net::free_tcp_port();
    while p6 == p4 {
        p6 = vcore::net::free_tcp_port();
    }
    let mut config = Config::default();
    config.socket_workers = socket_workers;
    config.swarm_workers = swarm_workers;
    config.network.address_ipv4 = SocketAddrV4::new(Ipv4Addr::new(127, 0, 0, 1), p4);
    config.network.address_ipv6 = SocketAddrV6::new(Ipv6Addr::UNSPECIFIED, p6, 0, 0);
    config.network.set_only_ipv6 = false; // dual-stack listener: IPv4 hosts can reach it too
    config.network.keep_alive = keep_alive;
    config.cleaning.torrent_cleaning_interval = 1;
    config.cleaning.max_connection_idle = 1_000_000;
    config.cleaning.max_peer_age = 1_000_000;
    config
}

pub fn start(config: Config) -> Result<Tracker, String> {
    let exit = Arc::new(Mutex::new(None));
    let e2 = exit.clone();
    let c2 = config.clone();
    std::thread::Builder::new()
        .name("tracker-run".into())
        .spawn(move || {
            let r = aquatic_http::run(c2);
            *e2.lock().unwrap() = Some(format!("{:?}", r.map_err(|e| format!("{:#}", e))));
        })
        .unwrap();
    let v4 = SocketAddr::V4(config.network.address_ipv4);
    let v6 = SocketAddr::V6(SocketAddrV6::new(Ipv6Addr::LOCALHOST, config.network.address_ipv6.port(), 0, 0));
    let t = Tracker { v4, v6, config, exit };
    let t0 = Instant::now();
    let probe = b"GET /scrape?info_hash=%00%00%00%00%00%00%00%00%00%00%00%00%00%00%00%00%00%00%00%00 HTTP/1.1\r\nHost: x\r\n\r\n";
    loop {
        if let Some(e) = t.exit.lock().unwrap().clone() {
            return Err(format!("run() returned during start-up: {}", e));
        }
        let mut ok = true;
        for (on, addr) in [(t.config.network.use_ipv4, t.v4), (t.config.network.use_ipv6, t.v6)] {
            if !on {
                continue;
            }
            // in reverse proxy mode a request without the header panics the worker by design: probe with the header
            let mut req = probe.to_vec();
            if t.config.network.runs_behind_reverse_proxy {
                let h = format!("GET /scrape?info_hash=%00%00%00%00%00%00%00%00%00%00%00%00%00%00%00%00%00%00%00%00 HTTP/1.1\r\nHost: x\r\n{}: 127.0.0.1\r\n\r\n", t.config.network.reverse_proxy_ip_header_name);
                req = h.into_bytes();
            }
            match Conn::open(addr, None) {
                Ok(mut c) => match c.request(&req, 500) {
                    Ok(_) => {}
                    Err(_) => ok = false,
                },
                Err(_) => ok = false,
            }
        }
        // all socket workers must have bound their listeners: give the slower ones a moment
        if ok {
            std::thread::sleep(Duration::from_millis(150));
            LIVE_SWARM_WORKERS.fetch_add(t.config.swarm_workers, std::sync::atomic::Ordering::SeqCst);
            *CANARY_TARGET.lock().unwrap_or_else(|e| e.into_inner()) = Some((if t.config.network.use_ipv4 { t.v4 } else { t.v6 }, if t.config.network.runs_behind_reverse_proxy { Some(t.config.network.reverse_proxy_ip_header_name.clone()) } else { None }));
            return Ok(t);
        }
        if t0.elapsed() > Duration::from_secs(90) {
            return Err("tracker did not answer within 90 s".into());
        }
        std::thread::sleep(Duration::from_millis(20));
    }
}

#[derive(Debug, Clone)]
pub enum FrameError {
    /// connection closed / reset before a complete response
    Closed(String),
    Timeout,
    BadStatus(String),
    BadHeader(String),
    /// Content-Length differs from the bytes that follow (only decidable on close / next status line)
    LengthMismatch(String),
    BodyNotBencode(String),
}

#[derive(Debug, Clone)]
pub struct HttpReply {
    pub content_length: usize,
    pub body: B,
    pub raw_len: usize,
}

pub struct Conn {
    pub stream: TcpStream,
    pub local: SocketAddr,
    buf: Vec<u8>,
}

impl Conn {
    pub fn open(addr: SocketAddr, bind_ip: Option<IpAddr>) -> std::io::Result<Self> {
        let domain = if addr.is_ipv4() { socket2::Domain::IPV4 } else { socket2::Domain::IPV6 };
        let s = socket2::Socket::new(domain, socket2::Type::STREAM, Some(socket2::Protocol::TCP))?;
        if let Some(ip) = bind_ip {
            s.bind(&SocketAddr::new(ip, 0).into())?;
        }
        s.set_tcp_nodelay(true)?;
        s.connect_timeout(&addr.into(), Duration::from_secs(2))?;
        let stream: TcpStream = s.into();
        stream.set_read_timeout(Some(Duration::from_millis(50)))?;
        let local = stream.local_addr()?;
        Ok(Self { stream, local, buf: Vec::new() })
    }

    pub fn send(&mut self, bytes: &[u8]) -> std::io::Result<()> {
        self.stream.write_all(bytes)
    }

    /// write the request in segments split at the given byte positions
    pub fn send_split(&mut self, bytes: &[u8], cuts: &[usize], pause: Duration) -> std::io::Result<()> {
        let mut last = 0;
        for c in cuts.iter().chain(std::iter::once(&bytes.len())) {
            let c = (*c).min(bytes.len());
            if c > last {
                self.stream.write_all(&bytes[last..c])?;
                self.stream.flush()?;
                if !pause.is_zero() {
                    std::thread::sleep(pause);
                }
                last = c;
            }
        }
        Ok(())
    }

    pub fn request(&mut self, bytes: &[u8], timeout_ms: u64) -> Result<HttpReply, FrameError> {
        self.send(bytes).map_err(|e| FrameError::Closed(e.to_string()))?;
        self.read_reply(timeout_ms)
    }

    fn fill(&mut self, deadline: Instant) -> Result<usize, FrameError> {
        let mut tmp = [0u8; 16384];
        loop {
            match self.stream.read(&mut tmp) {
                Ok(0) => return Ok(0),
                Ok(n) => {
                    self.buf.extend_from_slice(&tmp[..n]);
                    return Ok(n);
                }
                Err(e) if e.kind() == std::io::ErrorKind::WouldBlock || e.kind() == std::io::ErrorKind::TimedOut => {
                    if Instant::now() > deadline {
                        return Err(FrameError::Timeout);
                    }
                }
                Err(e) => return Err(FrameError::Closed(e.to_string())),
            }
        }
    }

    /// Framing monitor: exactly one well-framed response from the head of the stream.
    /// A reply that does not arrive in time is judged against the tracker's own responsiveness: canary scrapes on fresh
    /// connections (covering every swarm worker) are answered => this request is stuck for good (one grace period
    /// later: `Timeout`); the canaries are not answered either => the machine is overloaded or the whole tracker is
    /// gone, which this request cannot decide (`Timeout` too, but counted in `UNDECIDED`; the engine turns the
    /// timeouts of such a run into "inconclusive").
    pub fn read_reply(&mut self, timeout_ms: u64) -> Result<HttpReply, FrameError> {
        let r = self.read_reply_inner(timeout_ms);
        if matches!(r, Err(FrameError::Timeout)) && timeout_ms >= 2000 && !IN_CANARY.with(|c| c.get()) {
            if tracker_responsive() {
                let again = self.read_reply_inner(3000);
                if !matches!(again, Err(FrameError::Timeout)) {
                    LATE_REPLIES.fetch_add(1, std::sync::atomic::Ordering::SeqCst);
                }
                return again;
            }
            UNDECIDED.fetch_add(1, std::sync::atomic::Ordering::SeqCst);
        }
        r
    }

    fn read_reply_inner(&mut self, timeout_ms: u64) -> Result<HttpReply, FrameError> {
        let deadline = Instant::now() + Duration::from_millis(timeout_ms);
        // header
        let head_end = loop {
            if let Some(p) = find(&self.buf, b"\r\n\r\n") {
                break p + 4;
            }
            if self.buf.len() > 1024 {
                return Err(FrameError::BadHeader("no header end within 1024 bytes".into()));
            }
            if self.fill(deadline)? == 0 {
                return Err(FrameError::Closed(format!("eof after {} bytes, before the end of the header", self.buf.len())));
            }
        };
        let head = String::from_utf8_lossy(&self.buf[..head_end]).to_string();
        let mut lines = head.split("\r\n");
        let status = lines.next().unwrap_or("");
        if !status.starts_with("HTTP/1.1 200") {
            return Err(FrameError::BadStatus(status.to_string()));
        }
        let mut content_length: Option<usize> = None;
        for l in lines {
            if let Some((k, v)) = l.split_once(':') {
                if k.eq_ignore_ascii_case("content-length") {
                    let v = v.trim();
                    content_length = Some(v.parse().map_err(|_| FrameError::BadHeader(format!("Content-Length value {:?}", v)))?);
                }
            }
        }
        let n = content_length.ok_or_else(|| FrameError::BadHeader("no Content-Length".into()))?;
        while self.buf.len() < head_end + n {
            if self.fill(deadline)? == 0 {
                return Err(FrameError::LengthMismatch(format!("Content-Length {} but the connection ended after {} body bytes", n, self.buf.len() - head_end)));
            }
        }
        let body = self.buf[head_end..head_end + n].to_vec();
        self.buf.drain(..head_end + n);
        // what follows the counted bytes must be the next status line (or nothing)
        if !self.buf.is_empty() && !b"HTTP/1.1 ".starts_with(&self.buf[..self.buf.len().min(9)]) {
            return Err(FrameError::LengthMismatch(format!("Content-Length {} but {} stray bytes follow: {:?}", n, self.buf.len(), String::from_utf8_lossy(&self.buf[..self.buf.len().min(20)]))));
        }
        if !body.ends_with(b"\r\n") {
            return Err(FrameError::BodyNotBencode(format!("counted bytes do not end with CRLF: {:?}", String::from_utf8_lossy(&body[body.len().saturating_sub(12)..]))));
        }
        let b = bencode::decode(&body[..body.len() - 2]).map_err(|e| FrameError::BodyNotBencode(format!("{} (body {:?})", e, String::from_utf8_lossy(&body[..body.len().min(80)]))))?;
        Ok(HttpReply { content_length: n, body: b, raw_len: head_end + n })
    }

    /// After a response on a non-keep-alive connection: the peer must close without sending more
    pub fn expect_eof(&mut self, timeout_ms: u64) -> Result<(), FrameError> {
        let deadline = Instant::now() + Duration::from_millis(timeout_ms);
        loop {
            match self.fill(deadline) {
                Ok(0) => {
                    return if self.buf.is_empty() { Ok(()) } else { Err(FrameError::LengthMismatch(format!("{} bytes after the counted body", self.buf.len()))) };
                }
                Ok(_) => {}
                Err(FrameError::Timeout) => return Err(FrameError::Timeout),
                Err(FrameError::Closed(_)) => return Ok(()),
                Err(e) => return Err(e),
            }
        }
    }

    pub fn unread(&self) -> usize {
        self.buf.len()
    }
}

fn find(h: &[u8], n: &[u8]) -> Option<usize> {
    h.windows(n.len()).position(|w| w == n)
}

// ---------------------------------------------------------------------------------- requests

pub fn pct(id: &[u8; 20]) -> String {
    id.iter().map(|b| format!("%{:02x}", b)).collect()
}

#[allow(clippy::too_many_arguments)]
pub fn announce_req(hash: &[u8; 20], port: u16, event: &str, left: u64, numwant: Option<u64>, extra: &str, headers: &str) -> Vec<u8> {
    let mut q = format!("GET /announce?info_hash={}&peer_id=-VF0001-abcdefghijkl&port={}&uploaded=0&downloaded=0&left={}", pct(hash), port, left);
    if !event.is_empty() {
        q.push_str(&format!("&event={}", event));
    }
    if let Some(n) = numwant {
        q.push_str(&format!("&numwant={}", n));
    }
    q.push_str(extra);
    q.push_str(&format!("&compact=1 HTTP/1.1\r\nHost: tracker\r\n{}\r\n", headers));
    q.into_bytes()
}

pub fn scrape_req(hashes: &[[u8; 20]], headers: &str) -> Vec<u8> {
    let q: Vec<String> = hashes.iter().map(|h| format!("info_hash={}", pct(h))).collect();
    format!("GET /scrape?{} HTTP/1.1\r\nHost: tracker\r\n{}\r\n", q.join("&"), headers).into_bytes()
}

// ---------------------------------------------------------------------------------- replies

#[derive(Debug, Clone, PartialEq)]
pub enum Reply {
    Announce { complete: usize, incomplete: usize, peers4: Vec<PeerKey>, peers6: Vec<PeerKey>, interval: usize },
    Scrape(Vec<([u8; 20], usize, usize)>),
    Failure(String),
}

pub fn classify(b: &B) -> Result<Reply, String> {
    if let Some(f) = b.get(b"failure reason") {
        return Ok(Reply::Failure(String::from_utf8_lossy(f.bytes().ok_or("failure reason not a string")?).to_string()));
    }
    if let Some(files) = b.get(b"files") {
        let mut v = Vec::new();
        for (k, st) in files.dict().ok_or("files not a dict")? {
            let h: [u8; 20] = k.clone().try_into().map_err(|_| "scrape key not 20 bytes")?;
            let c = st.get(b"complete").and_then(|x| x.int()).ok_or("no complete")? as usize;
            let i = st.get(b"incomplete").and_then(|x| x.int()).ok_or("no incomplete")? as usize;
            if st.get(b"downloaded").and_then(|x| x.int()).is_none() {
                return Err("no downloaded".into());
            }
            v.push((h, c, i));
        }
        return Ok(Reply::Scrape(v));
    }
    let complete = b.get(b"complete").and_then(|x| x.int()).ok_or("no complete")? as usize;
    let incomplete = b.get(b"incomplete").and_then(|x| x.int()).ok_or("no incomplete")? as usize;
    let interval = b.get(b"interval").and_then(|x| x.int()).ok_or("no interval")? as usize;
    let p4 = b.get(b"peers").and_then(|x| x.bytes()).ok_or("no peers")?;
    let p6 = b.get(b"peers6").and_then(|x| x.bytes()).ok_or("no peers6")?;
    if p4.len() % 6 != 0 || p6.len() % 18 != 0 {
        return Err(format!("compact peer strings of {} / {} bytes", p4.len(), p6.len()));
    }
    let peers4 = p4.chunks(6).map(|c| PeerKey { ip: IpAddr::V4(Ipv4Addr::new(c[0], c[1], c[2], c[3])), port: u16::from_be_bytes([c[4], c[5]]) }).collect();
    let peers6 = p6
        .chunks(18)
        .map(|c| {
            let mut a = [0u8; 16];
            a.copy_from_slice(&c[..16]);
            PeerKey { ip: IpAddr::V6(Ipv6Addr::from(a)), port: u16::from_be_bytes([c[16], c[17]]) }
        })
        .collect();
    Ok(Reply::Announce { complete, incomplete, peers4, peers6, interval })
}

pub fn counter(name: &str) -> u64 {
    aquatic_common::verif::counter(name)
}

pub fn wait_cleans(n: u64, _swarm_workers: usize) -> bool {
    wait_all_threads("http.clean_done", n, LIVE_SWARM_WORKERS.load(std::sync::atomic::Ordering::SeqCst), 60_000)
}

pub fn wait_time_refreshed() -> bool {
    wait_all_threads("http.time_refreshed", 2, LIVE_SWARM_WORKERS.load(std::sync::atomic::Ordering::SeqCst), 60_000)
}

/// Wait until at least `threads` worker threads have each passed the per-thread hook `name` at least `n` times after
/// now (a global count could be produced by one busy worker while another is starved). Wall-clock bound only as a
/// watchdog: a false return is "inconclusive", never a verdict.
pub fn wait_all_threads(name: &str, n: u64, threads: usize, timeout_ms: u64) -> bool {
    let prefix = format!("{}@", name);
    let snap = || -> std::collections::BTreeMap<String, u64> { aquatic_common::verif::counters().into_iter().filter(|(k, _)| k.starts_with(&prefix)).collect() };
    let start = snap();
    vcore::net::wait_until(timeout_ms, || {
        let now = snap();
        now.iter().filter(|(k, v)| **v >= start.get(*k).copied().unwrap_or(0) + n).count() >= threads
    })
}

/// swarm worker threads alive in this process (trackers never stop once started)
pub static LIVE_SWARM_WORKERS: std::sync::atomic::AtomicUsize = std::sync::atomic::AtomicUsize::new(0);


pub fn distinct_first_n(hashes: &[[u8; 20]], n: usize) -> BTreeSet<[u8; 20]> {
    hashes.iter().take(n).copied().collect()
}

// ---- canaries: is the tracker answering at all? ----

pub static UNDECIDED: std::sync::atomic::AtomicU64 = std::sync::atomic::AtomicU64::new(0);
pub static LATE_REPLIES: std::sync::atomic::AtomicU64 = std::sync::atomic::AtomicU64::new(0);
static CANARY_TARGET: Mutex<Option<(SocketAddr, Option<String>)>> = Mutex::new(None);

thread_local! {
    static IN_CANARY: std::cell::Cell<bool> = const { std::cell::Cell::new(false) };
}

/// Eight scrapes on fresh connections (different source ports => spread over the socket workers; eight hashes with
/// first bytes 0..8 => every swarm worker takes part), each with 6 s: all answered = the tracker is responsive.
pub fn tracker_responsive() -> bool {
    let target = CANARY_TARGET.lock().unwrap_or_else(|e| e.into_inner()).clone();
    let (addr, header) = match target {
        Some(t) => t,
        None => return true,
    };
    IN_CANARY.with(|c| c.set(true));
    let mut ok = true;
    for k in 0..8u8 {
        let hashes: Vec<[u8; 20]> = (0..8u8).map(|b| { let mut h = [0xCAu8; 20]; h[0] = b; h[1] = k; h }).collect();
        let req = scrape_req(&hashes, &header.clone().map(|h| format!("{}: 127.0.0.1\r\n", h)).unwrap_or_default());
        match Conn::open(addr, None) {
            Ok(mut c) => {
                if c.request(&req, 6000).is_err() {
                    ok = false;
                    break;
                }
            }
            Err(_) => {
                ok = false;
                break;
            }
        }
    }
    IN_CANARY.with(|c| c.set(false));
    ok
}
