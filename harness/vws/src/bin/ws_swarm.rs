//! swarm_diff engine for the WebTorrent tracker's swarm worker storage
//! (`aquatic_ws::workers::swarm::verif_storage::TorrentMaps`, mock clock).
//! Serves C08 (bookkeeping + ownership at storage level), C09 (offer / answer
//! relay), C02 (offer recipients), C10 (peer and offer expiry), C11 (clean vs list).

use std::collections::{BTreeMap, BTreeSet};
use std::panic::{catch_unwind, AssertUnwindSafe};
use std::sync::Arc;

use aquatic_common::access_list::{AccessList, AccessListArcSwap, AccessListMode};
use aquatic_common::ServerStartInstant;
use aquatic_ws::common::{ConnectionId, ConsumerId, InMessageMeta, IpVersion, OutMessageMeta, PendingScrapeId};
use aquatic_ws::config::Config;
use aquatic_ws::workers::swarm::verif_storage::TorrentMaps;
use aquatic_ws_protocol::common::*;
use aquatic_ws_protocol::incoming::{AnnounceEvent, AnnounceRequest, AnnounceRequestOffer, ScrapeRequest, ScrapeRequestInfoHashes};
use aquatic_ws_protocol::outgoing::OutMessage;
use rand::rngs::SmallRng;
use rand::SeedableRng;
use serde::{Deserialize, Serialize};
use serde_json::json;
use slotmap::{DenseSlotMap, Key};

use vcore::model::Fam;
use vcore::wsmodel::{AnnounceOutcome, AnswerExpectation, Conn, WsModel};
use vcore::{Args, Report, SplitMix};

#[derive(Serialize, Deserialize, Clone, Debug)]
enum Op {
    Announce {
        conn: usize,
        t: usize,
        pid: usize,
        /// 0 update, 1 started, 2 completed, 3 stopped, 4 absent
        event: u8,
        /// 0 absent, 1 zero, 2 positive
        left: u8,
        /// offer id indices (sdp derived from position)
        offers: Option<Vec<usize>>,
        /// (to pid, offer id index)
        answer: Option<(usize, usize)>,
    },
    Scrape {
        conn: usize,
        /// None = field absent, Some(vec) single if len 1 and `single`
        ts: Option<Vec<usize>>,
        single: bool,
    },
    Close {
        conn: usize,
    },
    /// the receiver of the idx-th offer ever forwarded in this history answers it now (resolved at run time:
    /// recipients are chosen at random by the tracker); the model decides whether it is still outstanding
    AnswerForward {
        idx: usize,
    },
    Clean {
        advance: u32,
    },
    Observe {
        t: usize,
        v6: bool,
    },
    SetList {
        list: Vec<usize>,
    },
}

#[derive(Serialize, Deserialize, Clone, Debug)]
struct History {
    max_offers: usize,
    max_scrape_torrents: usize,
    max_peer_age: u32,
    max_offer_age: u32,
    start_clock: u32,
    mode: u8,
    initial_list: Vec<usize>,
    n_torrents: usize,
    n_pids: usize,
    n_oids: usize,
    /// per logical connection slot: (worker, is_v6)
    conns: Vec<(u8, bool)>,
    rng_seed: u64,
    ops: Vec<Op>,
}

#[derive(Default)]
struct Shape {
    seq: Vec<u8>,
    nontrivial: bool,
    counters: BTreeMap<&'static str, u64>,
}
impl Shape {
    fn ev(&mut self, c: u8) {
        self.seq.push(c)
    }
    fn cnt(&mut self, k: &'static str) {
        *self.counters.entry(k).or_insert(0) += 1
    }
}

struct Fail {
    op_index: usize,
    clause: &'static str,
    signature: String,
    detail: String,
}

/// position of the byte in which the identifiers of one history differ (set per history from its seed): a key
/// comparison that looks at part of an identifier only must not go unnoticed
static ID_POS: std::sync::atomic::AtomicUsize = std::sync::atomic::AtomicUsize::new(0);

fn h20(tag: u8, i: usize) -> [u8; 20] {
    let mut a = [tag; 20];
    let pos = ID_POS.load(std::sync::atomic::Ordering::Relaxed) % 19;
    a[19] = tag ^ 0x5a;
    a[pos] = i as u8;
    a[(pos + 1) % 19] = (i >> 8) as u8;
    a
}

fn mode_of(m: u8) -> AccessListMode {
    match m {
        1 => AccessListMode::Allow,
        2 => AccessListMode::Deny,
        _ => AccessListMode::Off,
    }
}

fn make_list(idx: &[usize]) -> AccessList {
    let mut l = AccessList::default();
    for i in idx {
        l.insert_from_line(&vcore::hex(&h20(0xA0, *i))).unwrap();
    }
    l
}

fn panic_text(p: &(dyn std::any::Any + Send)) -> String {
    if let Some(s) = p.downcast_ref::<&str>() {
        s.to_string()
    } else if let Some(s) = p.downcast_ref::<String>() {
        s.clone()
    } else {
        "non-string panic".into()
    }
}

struct LiveConn {
    id: ConnectionId,
    conn: Conn,
}

/// property this process checks (set once in main): a failing clause that does not belong to it must not end the
/// history, or it would mask a later failure of a clause that does (one change often breaks several clauses)
static FOCUS: std::sync::OnceLock<String> = std::sync::OnceLock::new();
static OTHER_CLAUSE_FAILURES: std::sync::atomic::AtomicU64 = std::sync::atomic::AtomicU64::new(0);

macro_rules! bail {
    ($f:expr) => {{
        let f = $f;
        if relevant(FOCUS.get().map(|s| s.as_str()).unwrap_or(""), f.clause) {
            return Err(f);
        }
        OTHER_CLAUSE_FAILURES.fetch_add(1, std::sync::atomic::Ordering::Relaxed);
    }};
}

fn run_history(h: &History, shape: &mut Shape) -> Result<u64, Fail> {
    match catch_unwind(AssertUnwindSafe(|| run_history_inner(h, shape))) {
        Ok(r) => r,
        Err(p) => Err(Fail { op_index: h.ops.len().saturating_sub(1), clause: "panic", signature: format!("ws.swarm.panic:{}", panic_text(&*p)), detail: format!("the tracker code panicked during this history: {}", panic_text(&*p)) }),
    }
}

fn run_history_inner(h: &History, shape: &mut Shape) -> Result<u64, Fail> {
    ID_POS.store((h.rng_seed % 19) as usize, std::sync::atomic::Ordering::Relaxed);
    let mut config = Config::default();
    config.protocol.max_offers = h.max_offers;
    config.protocol.max_scrape_torrents = h.max_scrape_torrents;
    config.cleaning.max_peer_age = h.max_peer_age;
    config.cleaning.max_offer_age = h.max_offer_age;
    config.access_list.mode = mode_of(h.mode);
    let mut observer_config = config.clone();
    observer_config.protocol.max_offers = 100_000;

    let mut maps = TorrentMaps::new(0);
    let mut model = WsModel::new();
    let access_list: Arc<AccessListArcSwap> = Arc::new(AccessListArcSwap::from_pointee(make_list(&h.initial_list)));
    let mut list_now: BTreeSet<[u8; 20]> = h.initial_list.iter().map(|i| h20(0xA0, *i)).collect();
    let start = ServerStartInstant::new();
    let mut rng = SmallRng::seed_from_u64(h.rng_seed);
    let mut clock = h.start_clock;
    aquatic_common::verif::set_clock(Some(clock));

    // one slot map per socket worker: keys of different workers coincide, as in production
    let mut slotmaps: Vec<DenseSlotMap<ConnectionId, ()>> = (0..4).map(|_| DenseSlotMap::with_key()).collect();
    let mut live: Vec<LiveConn> = Vec::new();
    for (w, _) in h.conns.iter() {
        let id = slotmaps[*w as usize].insert(());
        live.push(LiveConn { id, conn: Conn { worker: *w, key: id.data().as_ffi() } });
    }
    // observer connections on a worker of their own
    let obs_ids: Vec<ConnectionId> = (0..2).map(|_| slotmaps[3].insert(())).collect();

    let allowed = |list: &BTreeSet<[u8; 20]>, mode: u8, hash: &[u8; 20]| -> bool {
        match mode {
            1 => list.contains(hash),
            2 => !list.contains(hash),
            _ => true,
        }
    };
    let meta_of = |lc: &LiveConn, v6: bool, scrape: Option<u8>| InMessageMeta {
        out_message_consumer_id: ConsumerId(lc.conn.worker),
        connection_id: lc.id,
        ip_version: if v6 { IpVersion::V6 } else { IpVersion::V4 },
        pending_scrape_id: scrape.map(PendingScrapeId),
    };
    let conn_of_meta = |m: &OutMessageMeta| Conn { worker: m.out_message_consumer_id.0, key: m.connection_id.data().as_ffi() };

    let mut ops_done = 0u64;
    // what a socket worker records per connection: torrent -> peer id it announced (also ids of other connections it tried to use)
    let mut recorded: Vec<BTreeMap<usize, usize>> = vec![BTreeMap::new(); h.conns.len()];
    // every forward observed so far: (torrent index, offerer pid index, receiver peer id, offer id index)
    let mut forwards_seen: Vec<(usize, usize, [u8; 20], usize)> = Vec::new();
    for (i, op) in h.ops.iter().enumerate() {
        let fail = |clause: &'static str, signature: &str, detail: String| Fail { op_index: i, clause, signature: signature.to_string(), detail };
        aquatic_common::verif::set_clock(Some(clock));
        // resolve an AnswerForward into the announce its receiver would send now
        let resolved: Op;
        let op = match op {
            Op::AnswerForward { idx } => {
                if forwards_seen.is_empty() {
                    ops_done += 1;
                    continue;
                }
                let (t, offerer_pid, receiver, oid) = forwards_seen[*idx % forwards_seen.len()];
                let hash = h20(0xA0, t);
                let found = [Fam::V4, Fam::V6].iter().find_map(|fam| model.entry(*fam, &hash, &receiver).map(|e| (e.owner, e.seeder)));
                let rpid = (0..h.n_pids).find(|k| h20(0xB0, *k) == receiver);
                let ci = found.and_then(|(owner, _)| live.iter().position(|l| l.conn == owner));
                match (found, rpid, ci) {
                    (Some((_, seeder)), Some(k), Some(ci)) => {
                        shape.cnt("answers_to_recorded_forwards");
                        resolved = Op::Announce { conn: ci, t, pid: k, event: 0, left: if seeder { 1 } else { 2 }, offers: None, answer: Some((offerer_pid, oid)) };
                        &resolved
                    }
                    _ => {
                        // the receiver is gone: nothing to send
                        ops_done += 1;
                        continue;
                    }
                }
            }
            other => other,
        };
        match op {
            Op::AnswerForward { .. } => unreachable!(),
            Op::Announce { conn, t, pid, event, left, offers, answer } => {
                let ci = *conn % live.len();
                let v6 = h.conns[ci].1;
                let fam = if v6 { Fam::V6 } else { Fam::V4 };
                let hash = h20(0xA0, *t);
                let peer = h20(0xB0, *pid);
                let stopped = *event == 3;
                let seeder = *left == 1;
                let me = live[ci].conn;
                if stopped {
                    recorded[ci].remove(t);
                } else {
                    recorded[ci].insert(*t, *pid);
                }
                let offer_list: Option<Vec<AnnounceRequestOffer>> = offers.as_ref().map(|v| {
                    v.iter()
                        .enumerate()
                        .map(|(k, oid)| AnnounceRequestOffer {
                            offer: RtcOffer { t: RtcOfferType::Offer, sdp: format!("sdp-{}-{}-{}", i, k, oid) },
                            offer_id: OfferId(h20(0xC0, *oid)),
                        })
                        .collect()
                });
                let request = AnnounceRequest {
                    action: AnnounceAction::Announce,
                    info_hash: InfoHash(hash),
                    peer_id: PeerId(peer),
                    bytes_left: match left {
                        0 => None,
                        1 => Some(0),
                        _ => Some(5),
                    },
                    event: match event {
                        0 => Some(AnnounceEvent::Update),
                        1 => Some(AnnounceEvent::Started),
                        2 => Some(AnnounceEvent::Completed),
                        3 => Some(AnnounceEvent::Stopped),
                        _ => None,
                    },
                    offers: offer_list.clone(),
                    numwant: offers.as_ref().map(|v| v.len()),
                    answer: answer.map(|_| RtcAnswer { t: RtcAnswerType::Answer, sdp: format!("answer-{}", i) }),
                    answer_to_peer_id: answer.map(|(to, _)| PeerId(h20(0xB0, to))),
                    answer_offer_id: answer.map(|(_, oid)| OfferId(h20(0xC0, oid))),
                };
                let mut out: Vec<(OutMessageMeta, OutMessage)> = Vec::new();
                let meta = meta_of(&live[ci], v6, None);
                let res = catch_unwind(AssertUnwindSafe(|| maps.handle_announce_request(&config, &mut rng, &mut out, start, meta, request)));
                if let Err(p) = res {
                    return Err(fail("panic", &format!("ws.swarm.announce.panic:{}", panic_text(&*p)), "announce panicked".into()));
                }
                let prior_owner = model.owner(fam, &hash, &peer);
                let outcome = model.announce(me, fam, hash, peer, stopped, seeder, clock as u64 + h.max_peer_age as u64, offers.as_ref().map(|v| v.len()), h.max_offers);
                match outcome {
                    AnnounceOutcome::Ignored => {
                        shape.ev(5);
                        shape.cnt("announce_with_foreign_peer_id");
                        shape.nontrivial = true;
                        let owner = prior_owner.unwrap();
                        if owner.key == me.key {
                            shape.cnt("foreign_peer_id_with_coinciding_connection_key");
                        }
                        if !out.is_empty() {
                            let sig = if owner.key == me.key && owner.worker != me.worker { "ws.ownership.connection_id_collision" } else { "ws.ownership.foreign_announce_answered" };
                            bail!(fail("ownership", sig, format!("announce with peer id owned by {:?} sent from {:?} produced {} message(s); it must be ignored", owner, me, out.len())));
                        }
                    }
                    AnnounceOutcome::Handled { stopped: _, complete, incomplete, others, offers_expected } => {
                        // exactly one announce reply to the sender
                        let mut replies = 0;
                        let mut offers_seen: Vec<(Conn, usize)> = Vec::new(); // (receiver conn, index into offer list)
                        let mut answers = Vec::new();
                        let mut errors = Vec::new();
                        for (m, msg) in out.iter() {
                            match msg {
                                OutMessage::AnnounceResponse(r) => {
                                    replies += 1;
                                    if conn_of_meta(m) != me {
                                        bail!(fail("routing", "ws.swarm.announce.reply_misaddressed", format!("announce reply addressed to {:?}, sender is {:?}", conn_of_meta(m), me)));
                                    }
                                    if r.info_hash.0 != hash || r.complete != complete || r.incomplete != incomplete {
                                        bail!(fail("counts", "ws.swarm.announce.counts", format!("announce reply complete/incomplete {}/{} reference {}/{} (announcer included)", r.complete, r.incomplete, complete, incomplete)));
                                    }
                                }
                                OutMessage::OfferOutMessage(o) => {
                                    let idx = offer_list.as_ref().and_then(|l| l.iter().position(|x| x.offer.sdp == o.offer.sdp));
                                    let idx = match idx {
                                        Some(k) => k,
                                        None => return Err(fail("offers", "ws.swarm.offer.unknown_sdp", "forwarded offer carries an sdp the sender did not send".into())),
                                    };
                                    let sent = &offer_list.as_ref().unwrap()[idx];
                                    if o.offer_id != sent.offer_id || o.peer_id.0 != peer || o.info_hash.0 != hash {
                                        bail!(fail("offers", "ws.swarm.offer.mislabelled", format!("forwarded offer {} has wrong offer id / sender peer id / info hash", idx)));
                                    }
                                    offers_seen.push((conn_of_meta(m), idx));
                                }
                                OutMessage::AnswerOutMessage(a) => answers.push((conn_of_meta(m), a.clone())),
                                OutMessage::ErrorResponse(e) => errors.push((conn_of_meta(m), e.clone())),
                                OutMessage::ScrapeResponse(_) => return Err(fail("routing", "ws.swarm.announce.scrape_reply", "announce produced a scrape reply".into())),
                            }
                        }
                        if replies != 1 {
                            bail!(fail("reply", "ws.swarm.announce.reply_count", format!("{} announce replies for one handled announce", replies)));
                        }
                        // offers: min(k, max_offers, others), distinct receivers among stored others, i-th offer forwarded i-th
                        if offers_seen.len() != offers_expected {
                            bail!(fail("offers", "ws.swarm.offer.count", format!("{} offers forwarded, expected min(sent {:?}, max_offers {}, others {}) = {}", offers_seen.len(), offers.as_ref().map(|v| v.len()), h.max_offers, others.len(), offers_expected)));
                        }
                        let mut used: BTreeSet<[u8; 20]> = BTreeSet::new();
                        for (k, (rc, idx)) in offers_seen.iter().enumerate() {
                            if *idx != k {
                                bail!(fail("offers", "ws.swarm.offer.order", format!("{}-th forwarded offer is offer #{} of the request", k, idx)));
                            }
                            // receiver = a stored other peer of this torrent owned by the addressed connection
                            let cand: Vec<[u8; 20]> = others.iter().filter(|p| model.owner(fam, &hash, p) == Some(*rc) && !used.contains(*p)).copied().collect();
                            if cand.is_empty() {
                                let sig = if *rc == me { "ws.swarm.offer.to_sender" } else { "ws.swarm.offer.receiver_not_member" };
                                bail!(fail("offers", sig, format!("offer #{} addressed to {:?}, which owns no (unused) other stored peer of this torrent/family", k, rc)));
                            }
                            if cand.len() > 1 {
                                shape.cnt("offer_receiver_ambiguous_connection_owns_several_peers");
                            }
                            let r = cand[0];
                            used.insert(r);
                            let oid = offer_list.as_ref().unwrap()[*idx].offer_id.0;
                            model.record_forward(fam, hash, peer, r, oid, clock as u64 + h.max_offer_age as u64);
                            if let Some(o) = offers.as_ref() {
                                forwards_seen.push((*t, *pid, r, o[*idx]));
                            }
                        }
                        if offers_expected > 0 {
                            shape.ev(6);
                            shape.cnt("offers_forwarded");
                            shape.nontrivial = true;
                            if others.len() > offers_expected {
                                shape.cnt("offer_selection_over_limit");
                            }
                        }
                        // answer
                        let mut expected_errors = 0;
                        if let (Some((to, oid)), false) = (answer, stopped) {
                            let to_peer = h20(0xB0, *to);
                            let oidb = h20(0xC0, *oid);
                            // the answer is processed after the offers of the same announce were recorded
                            let exp = model.answer_expectation(fam, &hash, &peer, &to_peer, &oidb);
                            let fwd_ok = |c: Conn| answers.len() == 1 && answers[0].0 == c && answers[0].1.peer_id.0 == peer && answers[0].1.offer_id.0 == oidb && answers[0].1.info_hash.0 == hash;
                            match exp {
                                AnswerExpectation::Forward(c) => {
                                    if !fwd_ok(c) {
                                        bail!(fail("answers", "ws.swarm.answer.not_forwarded", format!("answer to an outstanding offer must reach {:?}; got {} answer message(s), {} error(s)", c, answers.len(), errors.len())));
                                    }
                                    model.consume(fam, &hash, &peer, &to_peer, &oidb);
                                    shape.ev(7);
                                    shape.cnt("answer_forwarded");
                                    shape.nontrivial = true;
                                }
                                AnswerExpectation::ErrorToSender => {
                                    if !answers.is_empty() {
                                        bail!(fail("answers", "ws.swarm.answer.forwarded_without_offer", format!("answer forwarded to {:?} although no such offer is outstanding (never forwarded, already answered, expired by a clean, or other peer)", answers[0].0)));
                                    }
                                    expected_errors = 1;
                                    shape.ev(8);
                                    shape.cnt("answer_refused");
                                    shape.nontrivial = true;
                                }
                                AnswerExpectation::Nothing => {
                                    if !answers.is_empty() {
                                        bail!(fail("answers", "ws.swarm.answer.forwarded_to_unstored", "answer forwarded although the addressed peer is not stored".into()));
                                    }
                                    if !errors.is_empty() {
                                        // "an error reply to the answerer or nothing" - both allowed
                                        expected_errors = errors.len().min(1);
                                    }
                                    shape.cnt("answer_to_unstored_peer");
                                }
                                AnswerExpectation::EitherForwardOrError(c) => {
                                    if !answers.is_empty() {
                                        if !fwd_ok(c) {
                                            bail!(fail("answers", "ws.swarm.answer.misrouted", format!("answer forwarded to {:?}, offerer's connection is {:?}", answers[0].0, c)));
                                        }
                                        model.consume(fam, &hash, &peer, &to_peer, &oidb);
                                    } else {
                                        expected_errors = errors.len().min(1);
                                    }
                                    shape.cnt("answer_dont_care_case");
                                }
                            }
                        } else if !answers.is_empty() {
                            bail!(fail("answers", "ws.swarm.answer.spurious", "answer message produced without an answer in the request (or on stopped)".into()));
                        }
                        if errors.len() != expected_errors || errors.iter().any(|(c, _)| *c != me) {
                            bail!(fail("answers", "ws.swarm.error.unexpected", format!("{} error message(s) ({} expected), addressed to {:?}", errors.len(), expected_errors, errors.iter().map(|e| e.0).collect::<Vec<_>>())));
                        }
                        shape.ev(10 + *event + if seeder { 5 } else { 0 });
                        if stopped && prior_owner.is_some() {
                            shape.cnt("stopped_removed_entry");
                        }
                    }
                }
            }
            Op::Scrape { conn, ts, single } => {
                let ci = *conn % live.len();
                let v6 = h.conns[ci].1;
                let fam = if v6 { Fam::V6 } else { Fam::V4 };
                let me = live[ci].conn;
                let hashes: Option<Vec<[u8; 20]>> = ts.as_ref().map(|v| v.iter().map(|t| h20(0xA0, *t)).collect());
                let request = ScrapeRequest {
                    action: ScrapeAction::Scrape,
                    info_hashes: hashes.as_ref().map(|v| {
                        if *single && v.len() == 1 {
                            ScrapeRequestInfoHashes::Single(InfoHash(v[0]))
                        } else {
                            ScrapeRequestInfoHashes::Multiple(v.iter().map(|x| InfoHash(*x)).collect())
                        }
                    }),
                };
                let mut out = Vec::new();
                let meta = meta_of(&live[ci], v6, Some((i % 200) as u8));
                let res = catch_unwind(AssertUnwindSafe(|| maps.handle_scrape_request(&config, &mut out, meta, request)));
                if let Err(p) = res {
                    return Err(fail("panic", &format!("ws.swarm.scrape.panic:{}", panic_text(&*p)), "scrape panicked".into()));
                }
                match hashes {
                    None => {
                        // refused by the socket worker before it reaches storage; storage stays silent
                        if !out.is_empty() {
                            bail!(fail("scrape", "ws.swarm.scrape.full_scrape_answered", "scrape without hashes answered by storage".into()));
                        }
                    }
                    Some(hs) => {
                        if out.len() != 1 {
                            bail!(fail("scrape", "ws.swarm.scrape.reply_count", format!("{} messages for one scrape", out.len())));
                        }
                        let (m, msg) = &out[0];
                        if conn_of_meta(m) != me || m.pending_scrape_id.map(|p| p.0) != Some((i % 200) as u8) {
                            bail!(fail("routing", "ws.swarm.scrape.reply_misaddressed", "scrape reply not addressed to the sender / pending id lost".into()));
                        }
                        let files = match msg {
                            OutMessage::ScrapeResponse(r) => &r.files,
                            _ => return Err(fail("scrape", "ws.swarm.scrape.reply_kind", "scrape answered with another message kind".into())),
                        };
                        let within: Vec<[u8; 20]> = hs.iter().take(h.max_scrape_torrents).copied().collect();
                        for hh in within.iter() {
                            let (s, l) = model.counts(fam, hh);
                            if s + l > 0 {
                                match files.get(&InfoHash(*hh)) {
                                    Some(st) if st.complete == s && st.incomplete == l => {}
                                    other => return Err(fail("counts", "ws.swarm.scrape.counts", format!("requested torrent with stored peers {}/{} reported as {:?}", s, l, other.map(|x| (x.complete, x.incomplete))))),
                                }
                            }
                        }
                        for (k, st) in files.iter() {
                            let (s, l) = model.counts(fam, &k.0);
                            if !hs.contains(&k.0) {
                                bail!(fail("scrape", "ws.swarm.scrape.unrequested", "scrape reply lists a torrent that was not requested".into()));
                            }
                            if (st.complete, st.incomplete) != (s, l) {
                                bail!(fail("counts", "ws.swarm.scrape.counts", format!("scrape lists {}/{} for a torrent with {}/{} stored peers", st.complete, st.incomplete, s, l)));
                            }
                        }
                        shape.ev(30);
                    }
                }
            }
            Op::Close { conn } => {
                let ci = *conn % live.len();
                let me = live[ci].conn;
                let v6 = h.conns[ci].1;
                // the control message carries every (torrent, peer id) pair the socket worker recorded for this
                // connection - including ids of other connections it tried to use; only its own entries may go
                let owned = model.close(me);
                let mut pairs: BTreeSet<([u8; 20], [u8; 20])> = owned.iter().map(|(_, hh, pp)| (*hh, *pp)).collect();
                for (t, p) in recorded[ci].iter() {
                    if pairs.insert((h20(0xA0, *t), h20(0xB0, *p))) {
                        shape.cnt("close_carrying_a_foreign_peer_id");
                        shape.nontrivial = true;
                    }
                }
                recorded[ci].clear();
                for (hash, pid) in pairs.iter() {
                    let res = catch_unwind(AssertUnwindSafe(|| maps.handle_connection_closed(InfoHash(*hash), PeerId(*pid), if v6 { IpVersion::V6 } else { IpVersion::V4 }, ConsumerId(me.worker), live[ci].id)));
                    if let Err(p) = res {
                        return Err(fail("panic", &format!("ws.swarm.close.panic:{}", panic_text(&*p)), "connection close panicked".into()));
                    }
                }
                if !owned.is_empty() {
                    shape.ev(35);
                    shape.cnt("close_removed_entries");
                    shape.nontrivial = true;
                }
                // the slot is reused by a new connection (new key version)
                let w = me.worker as usize;
                slotmaps[w].remove(live[ci].id);
                let id = slotmaps[w].insert(());
                live[ci] = LiveConn { id, conn: Conn { worker: me.worker, key: id.data().as_ffi() } };
            }
            Op::SetList { list } => {
                access_list.store(Arc::new(make_list(list)));
                list_now = list.iter().map(|i| h20(0xA0, *i)).collect();
                shape.ev(40);
                shape.cnt("list_reload");
            }
            Op::Clean { advance } => {
                clock = clock.saturating_add(*advance).min(u32::MAX - 1);
                aquatic_common::verif::set_clock(Some(clock));
                let res = catch_unwind(AssertUnwindSafe(|| maps.clean(&config, &access_list, start)));
                if let Err(p) = res {
                    return Err(fail("panic", &format!("ws.swarm.clean.panic:{}", panic_text(&*p)), "clean panicked".into()));
                }
                let list_ref = list_now.clone();
                let mode = h.mode;
                let removed = model.clean(clock as u64, &|hh| allowed(&list_ref, mode, hh));
                if removed > 0 {
                    shape.ev(50);
                    shape.cnt("clean_expired_some");
                    shape.nontrivial = true;
                }
                shape.ev(52);
            }
            Op::Observe { t, v6 } => {
                // Observer: a fresh peer on its own connection offers to everybody (huge max_offers):
                // the set of addressed connections must be exactly the owners of the stored peers.
                let fam = if *v6 { Fam::V6 } else { Fam::V4 };
                let hash = h20(0xA0, *t);
                let peer = h20(0xD0, i);
                let oc = Conn { worker: 3, key: obs_ids[0].data().as_ffi() };
                let n = model.torrents.get(&(fam, hash)).map(|x| x.len()).unwrap_or(0);
                let offers: Vec<AnnounceRequestOffer> = (0..n + 2).map(|k| AnnounceRequestOffer { offer: RtcOffer { t: RtcOfferType::Offer, sdp: format!("obs-{}", k) }, offer_id: OfferId(h20(0xE0, k)) }).collect();
                let mk = |event, offers| AnnounceRequest {
                    action: AnnounceAction::Announce,
                    info_hash: InfoHash(hash),
                    peer_id: PeerId(peer),
                    bytes_left: Some(1),
                    event: Some(event),
                    offers,
                    numwant: None,
                    answer: None,
                    answer_to_peer_id: None,
                    answer_offer_id: None,
                };
                let meta = InMessageMeta { out_message_consumer_id: ConsumerId(3), connection_id: obs_ids[0], ip_version: if *v6 { IpVersion::V6 } else { IpVersion::V4 }, pending_scrape_id: None };
                let mut out = Vec::new();
                maps.handle_announce_request(&observer_config, &mut rng, &mut out, start, meta, mk(AnnounceEvent::Started, Some(offers)));
                let outcome = model.announce(oc, fam, hash, peer, false, false, clock as u64 + h.max_peer_age as u64, Some(n + 2), 100_000);
                let (complete, incomplete, others) = match outcome {
                    AnnounceOutcome::Handled { complete, incomplete, others, .. } => (complete, incomplete, others),
                    _ => unreachable!(),
                };
                let mut want: Vec<Conn> = others.iter().map(|p| model.owner(fam, &hash, p).unwrap()).collect();
                want.sort();
                let mut got: Vec<Conn> = out.iter().filter(|(_, m)| matches!(m, OutMessage::OfferOutMessage(_))).map(|(m, _)| conn_of_meta(m)).collect();
                got.sort();
                if got != want {
                    bail!(fail("membership", "ws.swarm.member_set", format!("observer's offers reached connections {:?}, stored peers belong to {:?}", got, want)));
                }
                for (_, m) in out.iter() {
                    if let OutMessage::AnnounceResponse(r) = m {
                        if (r.complete, r.incomplete) != (complete, incomplete) {
                            bail!(fail("counts", "ws.swarm.announce.counts", format!("observer saw {}/{} reference {}/{}", r.complete, r.incomplete, complete, incomplete)));
                        }
                    }
                }
                let mut out2 = Vec::new();
                maps.handle_announce_request(&observer_config, &mut rng, &mut out2, start, meta, mk(AnnounceEvent::Stopped, None));
                model.announce(oc, fam, hash, peer, true, false, 0, None, 0);
                shape.ev(31);
            }
        }
        ops_done += 1;
    }
    Ok(ops_done)
}

/// Offer-aging focus: a handful of long-lived peers on one torrent, short offer ages, and a dense mix of
/// offers (small id pool, so ids repeat and refresh), answers to recorded forwards and cleaning passes that
/// advance the clock by 0-2 seconds: outstanding offers of different ages, answered and refreshed in every order.
fn gen_offer_aging_history(rng: &mut SplitMix) -> History {
    let n_conns = 3 + rng.usize(3);
    let conns: Vec<(u8, bool)> = (0..n_conns).map(|i| ((i % 2) as u8, false)).collect();
    let max_offer_age = *rng.pick(&[2u32, 3, 3, 4, 6]);
    let mut ops = Vec::new();
    for c in 0..n_conns {
        ops.push(Op::Announce { conn: c, t: 0, pid: c, event: 1, left: 2, offers: None, answer: None });
    }
    let n_oids = 3 + rng.usize(3);
    let n_ops = 15 + rng.usize(30);
    for _ in 0..n_ops {
        match rng.below(10) {
            0..=3 => {
                let c = rng.usize(n_conns.min(2)); // one or two offerers
                let k = 1 + rng.usize(3);
                ops.push(Op::Announce { conn: c, t: 0, pid: c, event: 0, left: 2, offers: Some((0..k).map(|_| rng.usize(n_oids)).collect()), answer: None });
            }
            4..=6 => ops.push(Op::AnswerForward { idx: rng.usize(64) }),
            7..=8 => ops.push(Op::Clean { advance: rng.below(3) as u32 }),
            _ => ops.push(Op::Clean { advance: max_offer_age - 1 }),
        }
    }
    History {
        max_offers: 10,
        max_scrape_torrents: 10,
        max_peer_age: 100_000,
        max_offer_age,
        start_clock: rng.below(100) as u32,
        mode: 0,
        initial_list: vec![],
        n_torrents: 1,
        n_pids: n_conns,
        n_oids,
        conns,
        rng_seed: rng.next(),
        ops,
    }
}

fn gen_history(rng: &mut SplitMix, focus: &str) -> History {
    if matches!(focus, "C09" | "C10" | "") && rng.chance(1, 4) {
        return gen_offer_aging_history(rng);
    }
    let n_torrents = 1 + rng.usize(3);
    let n_conns = 2 + rng.usize(5);
    let both_fams = rng.chance(1, 3);
    let conns: Vec<(u8, bool)> = (0..n_conns).map(|i| ((i % 2) as u8, both_fams && rng.chance(1, 3))).collect();
    let n_pids = 2 + rng.usize(4);
    let n_oids = 2 + rng.usize(4);
    let ages: &[u32] = if focus == "C10" { &[0, 1, 2, 3, 7, 180, u32::MAX / 2, u32::MAX - 1, u32::MAX] } else { &[2, 3, 5, 20, 100] };
    let max_peer_age = *rng.pick(ages);
    let max_offer_age = *rng.pick(&[0u32, 1, 2, 3, 10, 120]);
    let mode = if focus == "C11" { rng.below(3) as u8 } else if rng.chance(1, 10) { 1 + rng.below(2) as u8 } else { 0 };
    let n_ops = 6 + rng.usize(50);
    // socket-worker-like bookkeeping: one peer id per (connection, torrent) until stopped / closed
    let mut conn_pid: BTreeMap<(usize, usize), usize> = BTreeMap::new();
    let mut last_offer: BTreeMap<usize, (usize, Vec<usize>)> = BTreeMap::new();
    let mut ops = Vec::new();
    for _ in 0..n_ops {
        let r = rng.below(100);
        if r < 62 {
            let conn = rng.usize(n_conns);
            let t = rng.usize(n_torrents);
            let pid = *conn_pid.entry((conn, t)).or_insert_with(|| if rng.chance(2, 3) { conn % n_pids } else { rng.usize(n_pids) });
            let event = *rng.pick(&[0u8, 0, 1, 1, 2, 3, 3, 4, 4]);
            if event == 3 {
                conn_pid.remove(&(conn, t));
            }
            let offers: Option<Vec<usize>> = if rng.chance(1, 2) {
                let k = rng.usize(7);
                Some((0..k).map(|_| rng.usize(n_oids)).collect())
            } else {
                None
            };
            // answers: half of them aim at the most recent offerer of this torrent with one of its offer ids
            let answer = if rng.chance(2, 5) {
                match last_offer.get(&t) {
                    Some((opid, oids)) if !oids.is_empty() && *opid != pid && rng.chance(2, 3) => Some((*opid, *rng.pick(oids))),
                    _ => Some((rng.usize(n_pids), rng.usize(n_oids))),
                }
            } else {
                None
            };
            if let Some(o) = &offers {
                if event != 3 && !o.is_empty() {
                    last_offer.insert(t, (pid, o.clone()));
                }
            }
            ops.push(Op::Announce { conn, t, pid, event, left: rng.below(3) as u8, offers, answer });
        } else if r < 68 {
            let ts = if rng.chance(1, 10) { None } else { Some((0..(1 + rng.usize(4))).map(|_| rng.usize(n_torrents + 2)).collect()) };
            ops.push(Op::Scrape { conn: rng.usize(n_conns), ts, single: rng.chance(1, 2) });
        } else if r < 78 {
            ops.push(Op::AnswerForward { idx: rng.usize(64) });
        } else if r < 83 {
            let conn = rng.usize(n_conns);
            conn_pid.retain(|k, _| k.0 != conn);
            ops.push(Op::Close { conn });
        } else if r < 90 {
            let advance = match rng.below(8) {
                0 => 0,
                1 => 1,
                2 => max_peer_age.saturating_sub(1),
                3 => max_peer_age,
                4 => max_offer_age.saturating_sub(1),
                5 => max_offer_age,
                6 => max_offer_age.saturating_add(1),
                _ => rng.below(max_peer_age.min(100) as u64 + 2) as u32,
            };
            ops.push(Op::Clean { advance: if max_peer_age > 100_000 && rng.chance(1, 2) { rng.below(5) as u32 } else { advance } });
        } else if r < 97 || mode == 0 {
            ops.push(Op::Observe { t: rng.usize(n_torrents), v6: both_fams && rng.chance(1, 3) });
        } else {
            ops.push(Op::SetList { list: (0..n_torrents).filter(|_| rng.chance(1, 2)).collect() });
        }
    }
    History {
        max_offers: *rng.pick(&[0usize, 1, 2, 3, 10]),
        max_scrape_torrents: *rng.pick(&[1usize, 2, 3, 255]),
        max_peer_age,
        max_offer_age,
        start_clock: if focus == "C10" && rng.chance(1, 4) { *rng.pick(&[0u32, 1, 1000, u32::MAX - 10]) } else { rng.below(50) as u32 },
        mode,
        initial_list: (0..n_torrents).filter(|_| rng.chance(1, 2)).collect(),
        n_torrents,
        n_pids,
        n_oids,
        conns,
        rng_seed: rng.next(),
        ops,
    }
}


/// C10 boundary sweep for the ws storage: peer expiry and pending-offer expiry.
/// Peers: `size` connections announce; the watched one optionally re-announces at an offset; cleans at
/// deadline-1 / deadline / deadline+1 with observer read-out. Offers: peer 0 offers to its only other
/// peer 1, cleans around the offer deadline, then peer 1 answers (forwarded iff not yet dropped by a pass).
fn gen_sweep(index: u64) -> Option<History> {
    let ages: [u32; 7] = [1, 2, 3, 180, u32::MAX / 2, u32::MAX - 1, u32::MAX];
    let offer_ages: [u32; 5] = [0, 1, 2, 120, u32::MAX - 1];
    let t0s: [u32; 3] = [0, 1000, u32::MAX - 3];
    let sizes: [usize; 4] = [1, 2, 5, 9];
    let mut i = index;
    let age = ages[(i % 7) as usize];
    i /= 7;
    let t0 = t0s[(i % 3) as usize];
    i /= 3;
    let size = sizes[(i % 4) as usize];
    i /= 4;
    let seeder = i % 2 == 0;
    i /= 2;
    let re = (i % 5) as usize;
    i /= 5;
    let offer_age = offer_ages[(i % 5) as usize];
    i /= 5;
    let kind = i % 2; // 0 peers, 1 offers
    i /= 2;
    if i > 0 {
        return None;
    }
    let mut ops = Vec::new();
    let mut clock = t0 as u64;
    let n = if kind == 1 { 2 } else { size };
    let conns: Vec<(u8, bool)> = (0..n.max(2)).map(|c| ((c % 2) as u8, false)).collect();
    let target = n - 1;
    for c in 0..n {
        ops.push(Op::Announce { conn: c, t: 0, pid: c, event: 1, left: if (c == target) == seeder { 1 } else { 2 }, offers: None, answer: None });
    }
    if kind == 0 {
        let mut issue = clock;
        let re_off: Option<u64> = match re {
            0 => None,
            1 => Some(0),
            2 => Some(1),
            3 => Some((age as u64).saturating_sub(1)),
            _ => Some(age as u64),
        };
        if let Some(off) = re_off {
            if clock + off < u32::MAX as u64 - 2 {
                ops.push(Op::Clean { advance: off as u32 });
                clock += off;
                ops.push(Op::Announce { conn: target, t: 0, pid: target, event: 0, left: if seeder { 1 } else { 2 }, offers: None, answer: None });
                issue = clock;
            }
        }
        let deadline = issue + age as u64;
        let mut last = clock;
        for instant in [deadline.saturating_sub(1), deadline, deadline + 1] {
            if instant < last || instant > u32::MAX as u64 - 1 {
                continue;
            }
            ops.push(Op::Clean { advance: (instant - last) as u32 });
            last = instant;
            ops.push(Op::Observe { t: 0, v6: false });
            ops.push(Op::Scrape { conn: 0, ts: Some(vec![0]), single: true });
        }
    } else {
        // peer 0 offers (offer id `re`) to its only other peer; clean at offer deadline - 1 / deadline / + 1 (chosen by `size` slot); then the answer
        let which = [0u64, 1, 2, 3][sizes.iter().position(|s| *s == size).unwrap()];
        ops.push(Op::Announce { conn: 0, t: 0, pid: 0, event: 0, left: 2, offers: Some(vec![re]), answer: None });
        let odl = clock + offer_age as u64;
        let instant = match which {
            0 => None, // no clean at all: expired-but-uncleaned offers still count
            1 => Some(odl.saturating_sub(1)),
            2 => Some(odl),
            _ => Some(odl + 1),
        };
        if let Some(inst) = instant {
            // the peers themselves must survive the pass: only meaningful when the peer age outlives it
            if inst >= clock && inst < u32::MAX as u64 - 1 && inst < clock + age as u64 {
                ops.push(Op::Clean { advance: (inst - clock) as u32 });
            }
        }
        ops.push(Op::Announce { conn: 1, t: 0, pid: 1, event: 0, left: 2, offers: None, answer: Some((0, re)) });
        // and a second answer to the same offer must be refused
        ops.push(Op::Announce { conn: 1, t: 0, pid: 1, event: 0, left: 2, offers: None, answer: Some((0, re)) });
    }
    Some(History { max_offers: 10, max_scrape_torrents: 10, max_peer_age: age, max_offer_age: offer_age, start_clock: t0, mode: 0, initial_list: vec![], n_torrents: 1, n_pids: 9, n_oids: 5, conns, rng_seed: index, ops })
}

fn relevant(property: &str, clause: &str) -> bool {
    if clause == "panic" {
        return true;
    }
    match property {
        "C08" => matches!(clause, "counts" | "ownership" | "membership" | "scrape" | "reply" | "routing" | "panic"),
        "C09" => matches!(clause, "offers" | "answers" | "routing"),
        "C02" => matches!(clause, "offers"),
        "C10" => matches!(clause, "counts" | "membership" | "answers" | "panic"),
        "C11" => matches!(clause, "counts" | "membership"),
        "C12" => matches!(clause, "panic"),
        _ => true,
    }
}

fn main() {
    let args = Args::parse();
    let property = args.property();
    let _ = FOCUS.set(property.clone());
    vcore::quiet_panics();
    let mut report = Report::new(
        "ws_swarm",
        "random histories of announce(offers/answer)/scrape/close/clean/observe/list-reload from several connections on two socket workers with coinciding connection keys, on the real ws swarm-worker TorrentMaps (mock clock), compared with the reference model after every op; \
         non-trivial = history contains a foreign-peer-id announce, a forwarded offer, a forwarded or refused answer, a close that removed entries or an expiry; distinct = hash of the abstracted event sequence",
    );
    if let Some(path) = args.get("replay") {
        let v: serde_json::Value = serde_json::from_str(&std::fs::read_to_string(path).unwrap()).unwrap();
        let h: History = serde_json::from_value(v["history"].clone()).unwrap();
        let mut shape = Shape::default();
        report.eval();
        match run_history(&h, &mut shape) {
            Ok(_) => println!("replay: history ran clean ({} ops)", h.ops.len()),
            Err(f) => {
                println!("replay: op {} clause {} signature {}: {}", f.op_index, f.clause, f.signature, f.detail);
                report.violation(&f.signature, f.clause, f.detail, json!({"engine":"ws_swarm","history": h, "failing_op": f.op_index}));
            }
        }
        report.finish(&args.out());
    }
    if args.get("mode") == Some("sweep") {
        let mut idx = 0u64;
        let mut ops = 0u64;
        while let Some(h) = gen_sweep(idx) {
            let mut shape = Shape::default();
            match run_history(&h, &mut shape) {
                Ok(n) => ops += n,
                Err(f) => {
                    if relevant(&property, f.clause) {
                        let mut hh = h.clone();
                        hh.ops.truncate(f.op_index + 1);
                        report.violation(&f.signature, f.clause, format!("boundary sweep case {}: {}", idx, f.detail), json!({"engine":"ws_swarm","history": hh, "failing_op": f.op_index, "sweep_index": idx}));
                    }
                }
            }
            if shape.nontrivial {
                report.nontrivial(vcore::fnv(&idx.to_le_bytes()));
            }
            for (k, v) in shape.counters {
                report.add(k, v);
            }
            if idx == 2100 || idx == 3000 {
                report.sample(serde_json::to_value(&h).unwrap());
            }
            idx += 1;
        }
        report.evals(ops);
        report.add("sweep_cases", idx);
        report.extra.insert("exhaustive".into(), json!(true));
        report.rule = "deterministic boundary grid (ws storage, mock clock): peer expiry (7 max ages x 3 announce times x 4 swarm sizes x seeder/leecher x 5 re-announce offsets, cleans at deadline-1/deadline/deadline+1) and pending-offer expiry (5 offer ages x clean before/at/after the offer deadline or not at all, then the answer twice) vs reference model; non-trivial = case with an expiry, a forwarded or a refused answer; distinct = grid index".into();
        report.finish(&args.out());
    }
    let seed = args.seed();
    let shard = args.u64("shard", 0);
    let histories = args.u64("histories", 20_000);
    let budget_s = args.u64("budget_s", 25);
    let mut rng = SplitMix::new(seed).fork(0x0C08 + shard * 7919);
    let mut other_property = 0u64;
    let mut totals: BTreeMap<&'static str, u64> = BTreeMap::new();
    let mut n_hist = 0u64;
    for _ in 0..histories {
        if report.started.elapsed().as_secs() >= budget_s {
            break;
        }
        let h = gen_history(&mut rng, &property);
        let mut shape = Shape::default();
        let res = run_history(&h, &mut shape);
        n_hist += 1;
        match res {
            Ok(n) => report.evals(n),
            Err(f) => {
                report.evals(f.op_index as u64);
                if relevant(&property, f.clause) {
                    let mut hh = h.clone();
                    hh.ops.truncate(f.op_index + 1);
                    report.violation(&f.signature, f.clause, f.detail, json!({"engine":"ws_swarm","seed":seed,"shard":shard,"history": hh, "failing_op": f.op_index}));
                } else {
                    other_property += 1;
                }
            }
        }
        if shape.nontrivial {
            report.nontrivial(vcore::fnv(&shape.seq));
        }
        for (k, v) in shape.counters {
            *totals.entry(k).or_insert(0) += v;
        }
        if report.samples.len() < 2 && h.ops.len() < 10 {
            report.sample(serde_json::to_value(&h).unwrap());
        }
    }
    report.add("histories", n_hist);
    report.add("anomalies_of_other_properties_not_reported_here", other_property);
    for (k, v) in totals {
        report.add(k, v);
    }
    if report.distinct.len() < 2 && report.violations.is_empty() {
        report.inconclusive("fewer than 2 distinct non-trivial histories observed");
    }
    report.finish(&args.out());
}
