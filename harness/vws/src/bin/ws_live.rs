//! live engine, WebTorrent: the real tracker (`aquatic_ws::run`, glommio)
//! in-process, hand-written WebSocket clients, per-connection message logs read
//! with the independent JSON reader, checked against the ws reference model
//! extended with "which connection owns which peer".
//!
//! scenarios: routing (C17, C08 ownership on the live tracker)  address (C03)
//!            access (C11)  expiry (C10)  corpus (C12)

use std::collections::{BTreeMap, BTreeSet};
use std::net::{IpAddr, Ipv4Addr, Ipv6Addr};
use std::time::{Duration, Instant};

use serde_json::json;

use vcore::model::Fam;
use vcore::wsmodel::{AnnounceOutcome, AnswerExpectation, Conn, WsModel};
use vcore::{Args, Report, SplitMix};
use vws::live::*;

fn hash_n(tag: u8, first: u8, n: usize) -> [u8; 20] {
    let mut h = [tag; 20];
    h[0] = first;
    h[1] = n as u8;
    h[2] = (n >> 8) as u8;
    h
}

struct Slot {
    conn: Option<WsConn>,
    id: Conn,
    v6: bool,
    bind: IpAddr,
    cursor: usize,
    /// what the socket worker recorded for this connection: torrent -> peer id (property: one peer id per torrent until stopped)
    announced: BTreeMap<[u8; 20], [u8; 20]>,
}

struct World {
    tracker: Tracker,
    slots: Vec<Slot>,
    model: WsModel,
    epoch: u64,
    swarm_workers: usize,
    label: String,
    script: Vec<String>,
}

/// Requests whose missing reply could not be judged because the tracker did not answer fresh canary connections either
/// (a starved machine, not a verdict): the run is inconclusive.
static UNDECIDED: std::sync::atomic::AtomicU64 = std::sync::atomic::AtomicU64::new(0);
static LATE_REPLIES: std::sync::atomic::AtomicU64 = std::sync::atomic::AtomicU64::new(0);

/// Canary: four fresh connections each scrape eight torrents (first bytes 0..8: every swarm worker takes part); all must be
/// answered within 8 s. "A reply is missing" is only ever concluded while the tracker demonstrably answers others.
fn tracker_responsive(addr: std::net::SocketAddr) -> bool {
    for k in 0..4u8 {
        let hashes: Vec<[u8; 20]> = (0..8u8)
            .map(|b| {
                let mut h = [0xCAu8; 20];
                h[0] = b;
                h[1] = k;
                h
            })
            .collect();
        let mut c = match WsConn::open(addr, None) {
            Ok(c) => c,
            Err(_) => return false,
        };
        let replies = ask(&mut c, &scrape_json(Some(&hashes), false), 8_000);
        if !replies.iter().any(|m| matches!(m, Msg::ScrapeReply { .. })) {
            return false;
        }
    }
    true
}

impl World {
    /// Called when a positive expectation ("a reply arrives") has not been met within its first wait. Keeps pumping while
    /// `arrived` stays false: up to five rounds of (canary, further wait). Returns true when the reply arrived after
    /// all (late, counted), false when it is still missing although the tracker answered the canaries (a verdict); when
    /// the tracker never answered the canaries either, the case is undecided (run inconclusive) and true is returned so
    /// that no violation is recorded.
    fn patience(&mut self, mut arrived: impl FnMut(&mut World) -> bool) -> bool {
        let addr = self.tracker.addr_v4();
        for _ in 0..5 {
            let responsive = tracker_responsive(addr);
            let t0 = Instant::now();
            while t0.elapsed() < Duration::from_millis(if responsive { 4_000 } else { 10_000 }) {
                self.pump_all(5);
                if arrived(self) {
                    LATE_REPLIES.fetch_add(1, std::sync::atomic::Ordering::SeqCst);
                    return true;
                }
            }
            if responsive {
                return false;
            }
        }
        UNDECIDED.fetch_add(1, std::sync::atomic::Ordering::SeqCst);
        true
    }
    fn fam(&self, s: usize) -> Fam {
        if self.slots[s].v6 {
            Fam::V6
        } else {
            Fam::V4
        }
    }
    fn reopen(&mut self, s: usize) -> Result<(), String> {
        self.epoch += 1;
        let addr = if self.slots[s].v6 { self.tracker.addr_v6() } else { self.tracker.addr_v4() };
        let c = WsConn::open(addr, Some(self.slots[s].bind)).map_err(|e| e.to_string())?;
        self.slots[s].conn = Some(c);
        self.slots[s].id = Conn { worker: 0, key: self.epoch * 1000 + s as u64 };
        self.slots[s].cursor = 0;
        self.slots[s].announced.clear();
        Ok(())
    }
    fn pump_all(&mut self, ms: u64) {
        let t0 = Instant::now();
        loop {
            let mut got = 0;
            for s in self.slots.iter_mut() {
                if let Some(c) = s.conn.as_mut() {
                    got += c.pump();
                }
            }
            if t0.elapsed() > Duration::from_millis(ms) {
                break;
            }
            if got == 0 {
                std::thread::sleep(Duration::from_micros(500));
            }
        }
    }
    /// new messages per slot since the cursors (and advance them)
    fn take_new(&mut self) -> Vec<(usize, Msg)> {
        let mut out = Vec::new();
        for (i, s) in self.slots.iter_mut().enumerate() {
            if let Some(c) = s.conn.as_ref() {
                for m in c.log[s.cursor..].iter() {
                    match m {
                        Incoming::Text(j, raw) => out.push((i, classify(j, raw))),
                        Incoming::NotJson(raw) => out.push((i, Msg::Unknown(raw.clone()))),
                        Incoming::Close => {}
                        Incoming::Other(_) => {}
                    }
                }
                s.cursor = c.log.len();
            }
        }
        out
    }
    /// wait until slot `s` has received a scrape reply for exactly `fence` (the fence), pumping everybody
    fn wait_fence(&mut self, s: usize, fence: &[u8; 20], ms: u64) -> bool {
        let t0 = Instant::now();
        loop {
            self.pump_all(1);
            let c = self.slots[s].conn.as_ref().unwrap();
            let found = c.log[self.slots[s].cursor..].iter().any(|m| matches!(m, Incoming::Text(j, raw) if matches!(classify(j, raw), Msg::ScrapeReply { .. }) && raw.contains("\"scrape\"")));
            let _ = fence;
            if found {
                return true;
            }
            if c.closed {
                return false;
            }
            if t0.elapsed() > Duration::from_millis(ms) {
                break;
            }
        }
        self.patience(|w| {
            let c = w.slots[s].conn.as_ref().unwrap();
            c.closed || c.log[w.slots[s].cursor..].iter().any(|m| matches!(m, Incoming::Text(j, raw) if matches!(classify(j, raw), Msg::ScrapeReply { .. }) && raw.contains("\"scrape\"")))
        }) && !self.slots[s].conn.as_ref().unwrap().closed
    }
}

fn scenario_routing(args: &Args, report: &mut Report) {
    let sw = args.usize("socket_workers", 2);
    let ww = args.usize("swarm_workers", 2);
    let n_slots = args.usize("connections", 10);
    let n_ops = args.usize("ops", 400);
    aquatic_common::verif::set_clock(Some(1000));
    let mut config = base_config(sw, ww);
    config.protocol.max_offers = 3;
    let tracker = match start(config) {
        Ok(t) => t,
        Err(e) => {
            report.inconclusive(format!("tracker start: {}", e));
            return;
        }
    };
    let label = format!("{}x{}", sw, ww);
    let mut r = SplitMix::new(args.seed()).fork(0xC17 + sw as u64 * 10 + ww as u64);
    let mut w = World { tracker, slots: Vec::new(), model: WsModel::new(), epoch: 0, swarm_workers: ww, label: label.clone(), script: Vec::new() };
    for i in 0..n_slots {
        let v6 = i % 5 == 4;
        let bind: IpAddr = if v6 { IpAddr::V6(Ipv6Addr::LOCALHOST) } else { IpAddr::V4(Ipv4Addr::new(127, 0, 20, 1 + i as u8)) };
        w.slots.push(Slot { conn: None, id: Conn { worker: 0, key: 0 }, v6, bind, cursor: 0, announced: BTreeMap::new() });
        if let Err(e) = w.reopen(i) {
            report.inconclusive(format!("connect: {}", e));
            return;
        }
    }
    // observers (one per family) never announce
    let obs_v4 = n_slots;
    let obs_v6 = n_slots + 1;
    for (v6, bind) in [(false, IpAddr::V4(Ipv4Addr::new(127, 0, 20, 200))), (true, IpAddr::V6(Ipv6Addr::LOCALHOST))] {
        w.slots.push(Slot { conn: None, id: Conn { worker: 9, key: 0 }, v6, bind, cursor: 0, announced: BTreeMap::new() });
        let i = w.slots.len() - 1;
        if let Err(e) = w.reopen(i) {
            report.inconclusive(format!("connect: {}", e));
            return;
        }
    }
    // torrents on every swarm worker
    let torrents: Vec<[u8; 20]> = (0..4).map(|n| hash_n(0x81, n as u8, n)).collect();
    let pid_of = |slot_key: u64, t: usize| -> [u8; 20] {
        let mut p = [0x82u8; 20];
        p[0..8].copy_from_slice(&slot_key.to_be_bytes());
        p[8] = t as u8;
        p
    };
    let base = json!({"engine":"ws_live","scenario":"routing","config":label,"seed":args.seed()});
    let mut oid_counter = 0u64;

    macro_rules! fail {
        ($sig:expr, $clause:expr, $detail:expr) => {{
            let mut v = base.clone();
            v["script_tail"] = json!(w.script.iter().rev().take(25).rev().collect::<Vec<_>>());
            report.violation($sig, $clause, format!("{} ({})", $detail, w.label), v);
        }};
    }

    // compare observer scrapes of every torrent with the model
    macro_rules! observe {
        ($why:expr) => {{
            for (obs, fam) in [(obs_v4, Fam::V4), (obs_v6, Fam::V6)] {
                let msg = scrape_json(Some(&torrents), false);
                let c = w.slots[obs].conn.as_mut().unwrap();
                let _ = c.send_text(&msg);
                let ok = w.wait_fence(obs, &torrents[0], 12_000);
                let new = w.take_new();
                report.eval();
                if !ok {
                    fail!("ws.live.scrape_not_answered", "routing", format!("observer scrape after {} not answered", $why));
                    continue;
                }
                for (slot, m) in new {
                    if slot != obs {
                        fail!("ws.live.unexpected_message", "routing", format!("connection {} received {:?} while only the observer was active", slot, m));
                        continue;
                    }
                    if let Msg::ScrapeReply { files } = m {
                        for t in torrents.iter() {
                            let (s, l) = w.model.counts(fam, t);
                            let got = files.iter().find(|f| f.0 == *t).map(|f| (f.1 as usize, f.2 as usize)).unwrap_or((0, 0));
                            if got != (s, l) {
                                let sig = if got.0 + got.1 < s + l { "ws.live.entry_missing" } else { "ws.live.entry_survives" };
                                fail!(sig, "ownership", format!("after {}: observer ({:?}) sees {}/{} for torrent {}, reference {}/{}", $why, fam, got.0, got.1, t[1], s, l));
                            }
                        }
                    }
                }
            }
        }};
    }

    for opi in 0..n_ops {
        if report.num_violations() >= 3 || report.violation_occurrences() >= 8 {
            break;
        }
        let s = r.usize(n_slots);
        if w.slots[s].conn.as_ref().map(|c| c.closed).unwrap_or(true) {
            if let Err(e) = w.reopen(s) {
                report.inconclusive(format!("reconnect: {}", e));
                return;
            }
        }
        let fam = w.fam(s);
        let me = w.slots[s].id;
        let kind = r.below(100);
        if kind < 62 {
            // ---------------- announce
            let t = r.usize(torrents.len());
            let hash = torrents[t];
            let mode = r.below(12);
            // peer id: own fixed id; an impostor's attempt with somebody else's id; or a second id on the same torrent
            let mut pid = pid_of(me.key, t);
            let mut what = "own";
            if mode == 0 {
                // impostor: use the id of some stored peer of this torrent that belongs to another connection
                let victims: Vec<[u8; 20]> = w.model.torrents.get(&(fam, hash)).map(|m| m.iter().filter(|(_, e)| e.owner != me).map(|(p, _)| *p).collect()).unwrap_or_default();
                if !victims.is_empty() && !w.slots[s].announced.contains_key(&hash) {
                    pid = *r.pick(&victims);
                    what = "impostor";
                }
            } else if mode == 1 && w.slots[s].announced.contains_key(&hash) {
                pid[19] ^= 0xff;
                what = "second_peer_id";
            }
            let event = *r.pick(&[None, Some("started"), Some("update"), Some("completed"), Some("stopped")]);
            let left = *r.pick(&[None, Some(0u64), Some(9)]);
            let n_off = if event == Some("stopped") { 0 } else { *r.pick(&[0usize, 0, 1, 2, 3, 5]) };
            let offers: Vec<([u8; 20], String)> = (0..n_off)
                .map(|_| {
                    oid_counter += 1;
                    let mut o = [0x83u8; 20];
                    o[..8].copy_from_slice(&oid_counter.to_be_bytes());
                    (o, format!("sdp-{}-\"\\\n{}", oid_counter, "x".repeat(r.usize(30))))
                })
                .collect();
            // answer: half of them to a real outstanding offer addressed to one of my peers
            let mut answer: Option<([u8; 20], [u8; 20])> = None;
            if r.chance(1, 3) && what == "own" && event != Some("stopped") {
                let mut outstanding: Vec<([u8; 20], [u8; 20])> = Vec::new();
                if let Some(m) = w.model.torrents.get(&(fam, hash)) {
                    for (op, e) in m.iter() {
                        for ((to, oid), _) in e.expecting.iter() {
                            if *to == pid {
                                outstanding.push((*op, *oid));
                            }
                        }
                    }
                }
                answer = if !outstanding.is_empty() && r.chance(3, 4) {
                    Some(*r.pick(&outstanding))
                } else {
                    let others: Vec<[u8; 20]> = w.model.torrents.get(&(fam, hash)).map(|m| m.keys().copied().collect()).unwrap_or_default();
                    if others.is_empty() {
                        None
                    } else {
                        let mut o = [0x84u8; 20];
                        o[0] = r.next() as u8;
                        Some((*r.pick(&others), o))
                    }
                };
            }
            let msg = announce_json(&hash, &pid, event, left, if n_off > 0 || r.chance(1, 4) { Some(&offers) } else { None }, answer.as_ref().map(|(to, oid)| (to, oid, "answer-sdp")));
            let desc = format!("#{} slot {} ({:?}) announce t{} as {} event {:?} left {:?} offers {} answer {}", opi, s, me, t, what, event, left, n_off, answer.is_some());
            w.script.push(desc.clone());
            // what the socket worker does before forwarding
            let stopped = event == Some("stopped");
            let recorded = w.slots[s].announced.get(&hash).copied();
            let refused_second = recorded.map(|p| p != pid).unwrap_or(false);
            let use_binary = r.chance(1, 4);
            // read before sending: the tracker may have processed the refusal and the closure before we look again
            let handled_before_send = counter("ws.swarm.connection_closed_handled");
            let c = w.slots[s].conn.as_mut().unwrap();
            let sent = if use_binary { c.send_binary(msg.as_bytes()) } else { c.send_text(&msg) };
            if sent.is_err() {
                w.slots[s].conn = None;
                continue;
            }
            report.eval();
            if refused_second {
                // refused with an error; the tracker drops the connection, its entries disappear
                let handled0 = handled_before_send;
                let involved: BTreeSet<usize> = w.slots[s].announced.keys().map(|h| h[0] as usize % ww).collect();
                let t0 = Instant::now();
                while t0.elapsed() < Duration::from_millis(12_000) && !w.slots[s].conn.as_ref().unwrap().closed {
                    w.pump_all(2);
                }
                let new = w.take_new();
                // refusal = an error message and / or the tracker dropping the connection (the error message races
                // with the teardown of the connection and may not make it onto the wire), and never an announce reply
                let got_error = new.iter().any(|(slot, m)| *slot == s && matches!(m, Msg::Error { .. }));
                let dropped = w.slots[s].conn.as_ref().unwrap().closed;
                if got_error {
                    report.count("second_peer_id.error_message_delivered");
                } else {
                    report.count("second_peer_id.connection_dropped_without_message");
                }
                if !got_error && !dropped {
                    fail!("ws.live.second_peer_id_not_refused", "routing", format!("{}: neither an error message nor a dropped connection for a second peer id on a torrent that was not stopped", desc));
                }
                if new.iter().any(|(slot, m)| *slot == s && matches!(m, Msg::AnnounceReply { .. })) {
                    fail!("ws.live.second_peer_id_accepted", "routing", format!("{}: announce reply for a second peer id", desc));
                }
                if !dropped {
                    // connection kept: the refused announce must at least have had no effect; it stays usable
                    let _ = w.slots[s].conn.as_mut().unwrap().send_close();
                    let t1 = Instant::now();
                    while t1.elapsed() < Duration::from_millis(500) && !w.slots[s].conn.as_ref().unwrap().closed {
                        w.pump_all(2);
                    }
                }
                for (slot, m) in new.iter() {
                    if *slot != s {
                        fail!("ws.live.unexpected_message", "routing", format!("{}: connection {} received {:?}", desc, slot, m));
                    }
                }
                if !vcore::net::wait_until(15_000, || counter("ws.swarm.connection_closed_handled") >= handled0 + involved.len() as u64) {
                    fail!("ws.live.close_not_processed", "ownership", format!("{}: swarm workers did not process the connection's closure", desc));
                }
                w.model.close(me);
                w.slots[s].conn = None;
                observe!("a refused second peer id");
                report.nontrivial(vcore::fnv(format!("second_pid/{}", w.label).as_bytes()));
                continue;
            }
            if stopped {
                w.slots[s].announced.remove(&hash);
            } else {
                w.slots[s].announced.insert(hash, pid);
            }
            // fence: a scrape of the same torrent travels the same path behind the announce
            let _ = w.slots[s].conn.as_mut().unwrap().send_text(&scrape_json(Some(&[hash]), true));
            let fenced = w.wait_fence(s, &hash, 12_000);
            w.pump_all(12);
            let mut new = w.take_new();
            if !fenced {
                fail!("ws.live.scrape_not_answered", "routing", format!("{}: fence scrape not answered", desc));
                continue;
            }
            let prior_owner = w.model.owner(fam, &hash, &pid);
            // messages to connections on other socket workers travel other channels than the fence reply:
            // keep listening until the expected forwards have arrived (bounded)
            let expect_answer_elsewhere = match (&answer, stopped) {
                (Some((to, oid)), false) if prior_owner.map(|o| o == me).unwrap_or(true) => matches!(w.model.answer_expectation(fam, &hash, &pid, to, oid), AnswerExpectation::Forward(_)),
                _ => false,
            };
            let outcome = w.model.announce(me, fam, hash, pid, stopped, left == Some(0), u64::MAX, if n_off > 0 { Some(n_off) } else { None }, 3);
            if let AnnounceOutcome::Handled { offers_expected, .. } = &outcome {
                let t1 = Instant::now();
                loop {
                    let offers_seen = new.iter().filter(|(_, m)| matches!(m, Msg::Offer { from_peer, .. } if *from_peer == pid)).count();
                    let answer_seen = new.iter().any(|(_, m)| matches!(m, Msg::Answer { from_peer, .. } if *from_peer == pid));
                    if (offers_seen >= *offers_expected && (!expect_answer_elsewhere || answer_seen)) || t1.elapsed() > Duration::from_millis(10_000) {
                        break;
                    }
                    w.pump_all(3);
                    new.extend(w.take_new());
                }
            }
            // split the new messages
            let mut mine: Vec<Msg> = Vec::new();
            let mut others: Vec<(usize, Msg)> = Vec::new();
            for (slot, m) in new {
                if slot == s {
                    mine.push(m)
                } else {
                    others.push((slot, m))
                }
            }
            let fence_replies = mine.iter().filter(|m| matches!(m, Msg::ScrapeReply { .. })).count();
            let announce_replies: Vec<&Msg> = mine.iter().filter(|m| matches!(m, Msg::AnnounceReply { .. })).collect();
            let my_errors = mine.iter().filter(|m| matches!(m, Msg::Error { .. })).count();
            let my_answers: Vec<&Msg> = mine.iter().filter(|m| matches!(m, Msg::Answer { .. })).collect();
            if fence_replies != 1 {
                fail!("ws.live.scrape_reply_count", "routing", format!("{}: {} scrape replies for one scrape", desc, fence_replies));
            }
            match outcome {
                AnnounceOutcome::Ignored => {
                    if !announce_replies.is_empty() || my_errors > 0 || !others.is_empty() {
                        let owner = prior_owner.unwrap();
                        fail!("ws.ownership.foreign_announce_answered", "ownership", format!("{}: peer id belongs to {:?}; the announce must be ignored but produced {} reply / {} error / {} message(s) to others", desc, owner, announce_replies.len(), my_errors, others.len()));
                    }
                    report.nontrivial(vcore::fnv(format!("ignored/{}/{:?}", w.label, event).as_bytes()));
                    report.count("announces_with_foreign_peer_id_ignored");
                }
                AnnounceOutcome::Handled { complete, incomplete, others: eligible, offers_expected, .. } => {
                    if announce_replies.len() != 1 {
                        fail!("ws.live.announce_reply_count", "routing", format!("{}: {} announce replies", desc, announce_replies.len()));
                    } else if let Msg::AnnounceReply { hash: h, complete: c, incomplete: i } = announce_replies[0] {
                        if *h != hash || (*c as usize, *i as usize) != (complete, incomplete) {
                            fail!("ws.live.announce_counts", "reference", format!("{}: reply {}/{} reference {}/{}", desc, c, i, complete, incomplete));
                        }
                    }
                    // offers
                    let mut used_receivers: BTreeSet<[u8; 20]> = BTreeSet::new();
                    let mut used_offers: BTreeSet<[u8; 20]> = BTreeSet::new();
                    let mut n_offers = 0;
                    let mut leftover: Vec<(usize, Msg)> = Vec::new();
                    for (slot, m) in others {
                        match &m {
                            Msg::Offer { hash: h, from_peer, offer_id, sdp } if *h == hash && *from_peer == pid => {
                                n_offers += 1;
                                let sent = offers.iter().find(|o| o.0 == *offer_id);
                                if sent.map(|o| &o.1) != Some(sdp) {
                                    fail!("ws.live.offer_content", "routing", format!("{}: forwarded offer does not carry an offer id / sdp of the request", desc));
                                }
                                if !used_offers.insert(*offer_id) {
                                    fail!("ws.live.offer_forwarded_twice", "routing", format!("{}: one offer forwarded twice", desc));
                                }
                                let rid = w.slots[slot].id;
                                let cand: Vec<[u8; 20]> = eligible.iter().filter(|p| w.model.owner(fam, &hash, p) == Some(rid) && !used_receivers.contains(*p)).copied().collect();
                                if cand.is_empty() {
                                    fail!("ws.live.offer_misrouted", "routing", format!("{}: offer delivered to connection {} ({:?}) which owns no (other) stored peer of this torrent / family", desc, slot, rid));
                                } else {
                                    used_receivers.insert(cand[0]);
                                    w.model.record_forward(fam, hash, pid, cand[0], *offer_id, u64::MAX);
                                }
                            }
                            _ => leftover.push((slot, m)),
                        }
                    }
                    if n_offers != offers_expected {
                        fail!("ws.live.offer_count", "routing", format!("{}: {} offers delivered, expected min(sent {}, max_offers 3, others {}) = {}", desc, n_offers, n_off, eligible.len(), offers_expected));
                    }
                    // answer
                    let mut expected_errors = 0;
                    let mut answers_elsewhere: Vec<(usize, Msg)> = Vec::new();
                    let mut rest: Vec<(usize, Msg)> = Vec::new();
                    for (slot, m) in leftover {
                        if matches!(m, Msg::Answer { .. }) {
                            answers_elsewhere.push((slot, m))
                        } else {
                            rest.push((slot, m))
                        }
                    }
                    if let (Some((to, oid)), false) = (answer, stopped) {
                        let exp = w.model.answer_expectation(fam, &hash, &pid, &to, &oid);
                        let delivered_to: Vec<Conn> = answers_elsewhere
                            .iter()
                            .filter(|(_, m)| matches!(m, Msg::Answer { hash: h, from_peer, offer_id, .. } if *h == hash && *from_peer == pid && *offer_id == oid))
                            .map(|(slot, _)| w.slots[*slot].id)
                            .chain(my_answers.iter().filter(|m| matches!(m, Msg::Answer { offer_id, .. } if *offer_id == oid)).map(|_| me))
                            .collect();
                        match exp {
                            AnswerExpectation::Forward(c) => {
                                if delivered_to != vec![c] {
                                    fail!("ws.live.answer_not_delivered", "routing", format!("{}: answer to an outstanding offer must reach {:?}, delivered to {:?}", desc, c, delivered_to));
                                }
                                w.model.consume(fam, &hash, &pid, &to, &oid);
                                report.count("answers_delivered");
                            }
                            AnswerExpectation::ErrorToSender => {
                                if !delivered_to.is_empty() {
                                    fail!("ws.live.answer_forwarded_without_offer", "routing", format!("{}: answer delivered to {:?} although no such offer is outstanding", desc, delivered_to));
                                }
                                expected_errors = 1;
                            }
                            AnswerExpectation::Nothing => {
                                if !delivered_to.is_empty() {
                                    fail!("ws.live.answer_forwarded_without_offer", "routing", format!("{}: answer delivered although the addressed peer is not stored", desc));
                                }
                                expected_errors = my_errors.min(1);
                            }
                            AnswerExpectation::EitherForwardOrError(c) => {
                                if !delivered_to.is_empty() {
                                    if delivered_to != vec![c] {
                                        fail!("ws.live.answer_misrouted", "routing", format!("{}: answer delivered to {:?}, offerer's connection is {:?}", desc, delivered_to, c));
                                    }
                                    w.model.consume(fam, &hash, &pid, &to, &oid);
                                } else {
                                    expected_errors = my_errors.min(1);
                                }
                            }
                        }
                    } else if !answers_elsewhere.is_empty() || !my_answers.is_empty() {
                        fail!("ws.live.unexpected_message", "routing", format!("{}: answer message without an answer in the request", desc));
                    }
                    if my_errors != expected_errors {
                        fail!("ws.live.unexpected_error_message", "routing", format!("{}: {} error message(s), expected {}", desc, my_errors, expected_errors));
                    }
                    for (slot, m) in rest {
                        fail!("ws.live.unexpected_message", "routing", format!("{}: connection {} received {:?}", desc, slot, format!("{:?}", m).chars().take(100).collect::<String>()));
                    }
                    report.nontrivial(vcore::fnv(format!("announce/{}/{}/{}/{}/{}", w.label, what, offers_expected, answer.is_some(), use_binary).as_bytes()));
                    if offers_expected > 0 {
                        report.add("offers_delivered_to_their_addressee", offers_expected as u64);
                    }
                }
            }
        } else if kind < 80 {
            // ---------------- scrape
            let variant = r.below(6);
            let hs: Vec<[u8; 20]> = (0..(1 + r.usize(5))).map(|_| if r.chance(1, 5) { hash_n(0x85, r.below(4) as u8, 7) } else { torrents[r.usize(torrents.len())] }).collect();
            if variant >= 4 && r.chance(1, 2) {
                // ---- pipelined burst: several scrapes in flight at once on one connection (the socket worker keeps one
                // pending entry per scrape and merges the partial replies of the swarm workers into the right one)
                let k = 2 + r.usize(3);
                let lists: Vec<Vec<[u8; 20]>> = (0..k).map(|_| (0..(1 + r.usize(4))).map(|_| torrents[r.usize(torrents.len())]).collect()).collect();
                let desc = format!("#{} slot {} {} pipelined scrapes {:?}", opi, s, k, lists.iter().map(|l| l.iter().map(|h| h[1]).collect::<Vec<_>>()).collect::<Vec<_>>());
                w.script.push(desc.clone());
                for l in lists.iter() {
                    let _ = w.slots[s].conn.as_mut().unwrap().send_text(&scrape_json(Some(l), false));
                }
                report.eval();
                let t0 = Instant::now();
                let mut got: Vec<(usize, Msg)> = Vec::new();
                while t0.elapsed() < Duration::from_millis(12_000) && got.iter().filter(|(slot, _)| *slot == s).count() < k {
                    w.pump_all(2);
                    got.extend(w.take_new());
                }
                w.pump_all(8);
                got.extend(w.take_new());
                for (slot, m) in got.iter().filter(|(slot, _)| *slot != s) {
                    fail!("ws.live.unexpected_message", "routing", format!("{}: connection {} received {:?}", desc, slot, format!("{:?}", m).chars().take(80).collect::<String>()));
                }
                let mine: Vec<&Msg> = got.iter().filter(|(slot, _)| *slot == s).map(|(_, m)| m).collect();
                if mine.len() != k {
                    fail!(if mine.len() < k { "ws.live.scrape_not_answered" } else { "ws.live.scrape_reply_count" }, "routing", format!("{}: {} replies to {} scrapes", desc, mine.len(), k));
                    continue;
                }
                // every reply must be the correct answer to one of the requests (perfect matching; k <= 4)
                let fits = |m: &Msg, list: &Vec<[u8; 20]>| -> bool {
                    match m {
                        Msg::ScrapeReply { files } => {
                            files.iter().all(|f| list.contains(&f.0) && {
                                let (sdr, l) = w.model.counts(fam, &f.0);
                                (f.1 as usize, f.2 as usize) == (sdr, l)
                            }) && list.iter().all(|h| {
                                let (sdr, l) = w.model.counts(fam, h);
                                sdr + l == 0 || files.iter().any(|f| f.0 == *h)
                            })
                        }
                        _ => false,
                    }
                };
                fn assign(i: usize, used: &mut Vec<bool>, ok: &Vec<Vec<bool>>) -> bool {
                    if i == ok.len() {
                        return true;
                    }
                    for j in 0..used.len() {
                        if !used[j] && ok[i][j] {
                            used[j] = true;
                            if assign(i + 1, used, ok) {
                                return true;
                            }
                            used[j] = false;
                        }
                    }
                    false
                }
                let ok: Vec<Vec<bool>> = mine.iter().map(|m| lists.iter().map(|l| fits(m, l)).collect()).collect();
                if !assign(0, &mut vec![false; k], &ok) {
                    fail!("ws.live.pipelined_scrapes_mixed_up", "routing", format!("{}: the {} replies are not the correct answers to the {} requests: {:?}", desc, k, k, mine.iter().map(|m| format!("{:?}", m).chars().take(120).collect::<String>()).collect::<Vec<_>>()));
                }
                let workers: BTreeSet<usize> = lists.iter().flatten().map(|x| x[0] as usize % ww).collect();
                report.nontrivial(vcore::fnv(format!("pipelined_scrapes/{}/{}/{}", w.label, k, workers.len()).as_bytes()));
                report.count("pipelined_scrape_bursts");
                continue;
            }
            let (msg, expect_error, list): (String, bool, Vec<[u8; 20]>) = match variant {
                0 => (scrape_json(None, false), true, vec![]),
                1 => (scrape_json(Some(&[]), false), false, vec![]),
                2 => (scrape_json(Some(&hs[..1]), true), false, hs[..1].to_vec()),
                _ => (scrape_json(Some(&hs), false), false, hs.clone()),
            };
            let desc = format!("#{} slot {} scrape variant {} {:?}", opi, s, variant, list.iter().map(|h| h[1]).collect::<Vec<_>>());
            w.script.push(desc.clone());
            let _ = w.slots[s].conn.as_mut().unwrap().send_text(&msg);
            report.eval();
            let t0 = Instant::now();
            let mut got: Vec<(usize, Msg)> = Vec::new();
            while t0.elapsed() < Duration::from_millis(10_000) {
                w.pump_all(2);
                got.extend(w.take_new());
                if got.iter().any(|(slot, _)| *slot == s) {
                    w.pump_all(8);
                    got.extend(w.take_new());
                    break;
                }
            }
            if !got.iter().any(|(slot, _)| *slot == s) {
                // nothing within the first wait: canary-judged patience (a slow reply on a loaded machine is not a lost one)
                let mut late: Vec<(usize, Msg)> = Vec::new();
                let arrived = w.patience(|w| {
                    late.extend(w.take_new());
                    late.iter().any(|(slot, _)| *slot == s)
                });
                w.pump_all(8);
                late.extend(w.take_new());
                got.extend(late);
                if arrived && !got.iter().any(|(slot, _)| *slot == s) {
                    // undecided (tracker unresponsive to canaries): no verdict on this request
                    continue;
                }
            }
            let mine: Vec<&Msg> = got.iter().filter(|(slot, _)| *slot == s).map(|(_, m)| m).collect();
            for (slot, m) in got.iter().filter(|(slot, _)| *slot != s) {
                fail!("ws.live.unexpected_message", "routing", format!("{}: connection {} received {:?}", desc, slot, format!("{:?}", m).chars().take(80).collect::<String>()));
            }
            if mine.len() != 1 {
                let sig = if mine.is_empty() && variant == 1 { "ws.scrape.empty_list_no_reply" } else if mine.is_empty() { "ws.live.scrape_not_answered" } else { "ws.live.scrape_reply_count" };
                fail!(sig, "routing", format!("{}: {} replies to one scrape", desc, mine.len()));
                continue;
            }
            match (mine[0], expect_error) {
                (Msg::Error { .. }, true) => {}
                // an empty hash list: an error or an empty scrape reply both count as the one reply
                (Msg::Error { .. }, false) if variant == 1 => {}
                (Msg::ScrapeReply { files }, false) => {
                    for h in list.iter() {
                        let (sdr, l) = w.model.counts(fam, h);
                        let gotc = files.iter().find(|f| f.0 == *h).map(|f| (f.1 as usize, f.2 as usize));
                        if sdr + l > 0 && gotc != Some((sdr, l)) {
                            let workers: BTreeSet<usize> = list.iter().map(|x| x[0] as usize % ww).collect();
                            let sig = if gotc.is_none() && workers.len() > 1 { "ws.live.scrape_part_of_a_swarm_worker_missing" } else { "ws.live.scrape_counts" };
                            fail!(sig, "reference", format!("{}: torrent {} with stored peers {}/{} reported as {:?}", desc, h[1], sdr, l, gotc));
                        }
                    }
                    for f in files.iter() {
                        let (sdr, l) = w.model.counts(fam, &f.0);
                        if !list.contains(&f.0) || (f.1 as usize, f.2 as usize) != (sdr, l) {
                            fail!("ws.live.scrape_counts", "reference", format!("{}: reply lists torrent {} with {}/{}, reference {}/{}", desc, f.0[1], f.1, f.2, sdr, l));
                        }
                    }
                    let workers: BTreeSet<usize> = list.iter().map(|x| x[0] as usize % ww).collect();
                    report.nontrivial(vcore::fnv(format!("scrape/{}/{}/{}", w.label, variant.min(3), workers.len()).as_bytes()));
                }
                (other, _) => fail!("ws.live.wrong_reply_kind", "routing", format!("{}: got {:?}", desc, format!("{:?}", other).chars().take(80).collect::<String>())),
            }
        } else if kind < 92 {
            // ---------------- close: orderly close frame or abrupt reset
            let orderly = r.chance(1, 2);
            let desc = format!("#{} slot {} ({:?}) {} (recorded torrents {:?})", opi, s, me, if orderly { "close frame" } else { "TCP reset" }, w.slots[s].announced.keys().map(|h| h[1]).collect::<Vec<_>>());
            w.script.push(desc.clone());
            let involved: BTreeSet<usize> = w.slots[s].announced.keys().map(|h| h[0] as usize % ww).collect();
            let handled0 = counter("ws.swarm.connection_closed_handled");
            let cleanup0 = counter("ws.cleanup_done");
            let c = w.slots[s].conn.take().unwrap();
            if orderly {
                let mut c = c;
                let _ = c.send_close();
                let t0 = Instant::now();
                while !c.closed && t0.elapsed() < Duration::from_millis(1000) {
                    c.pump();
                    std::thread::sleep(Duration::from_millis(1));
                }
            } else {
                c.reset();
            }
            report.eval();
            if !vcore::net::wait_until(15_000, || counter("ws.cleanup_done") > cleanup0) {
                fail!("ws.live.close_not_processed", "ownership", format!("{}: the socket worker never ran its clean-up for this connection", desc));
            }
            if !vcore::net::wait_until(15_000, || counter("ws.swarm.connection_closed_handled") >= handled0 + involved.len() as u64) {
                fail!("ws.live.close_not_processed", "ownership", format!("{}: swarm workers did not process the closure", desc));
            }
            let removed = w.model.close(me);
            observe!(format!("{} of a connection owning {} entries", if orderly { "an orderly close" } else { "a reset" }, removed.len()));
            report.nontrivial(vcore::fnv(format!("close/{}/{}/{}/{}", w.label, orderly, removed.len().min(3), involved.len()).as_bytes()));
            if w.slots[s].announced.len() > removed.len() {
                report.count("closes_of_connections_that_had_tried_a_foreign_peer_id");
            }
        } else {
            observe!("nothing in particular");
        }
    }
    observe!("the sequential phase");

    // ---------------- concurrent phase: conservation at quiescence
    let ct: Vec<[u8; 20]> = (0..ww.max(2)).map(|n| hash_n(0x86, n as u8, n)).collect();
    for s in 0..n_slots {
        if w.slots[s].conn.as_ref().map(|c| c.closed).unwrap_or(true) {
            let _ = w.reopen(s);
        }
    }
    w.pump_all(20);
    w.take_new();
    let mut sent_offers: BTreeMap<[u8; 20], (usize, usize)> = BTreeMap::new(); // offer id -> (slot, torrent)
    for round in 0..args.usize("rounds", 4) {
        for s in 0..n_slots {
            let t = (s + round) % ct.len();
            let offers: Vec<([u8; 20], String)> = (0..3)
                .map(|k| {
                    oid_counter += 1;
                    let mut o = [0x87u8; 20];
                    o[..8].copy_from_slice(&oid_counter.to_be_bytes());
                    sent_offers.insert(o, (s, t));
                    (o, format!("c-{}-{}", s, k))
                })
                .collect();
            let pid = pid_of(w.slots[s].id.key, 100 + t);
            let _ = w.slots[s].conn.as_mut().unwrap().send_text(&announce_json(&ct[t], &pid, Some("started"), Some(1), Some(&offers), None));
            w.slots[s].announced.insert(ct[t], pid);
        }
        w.pump_all(3);
    }
    // quiescence: every connection sends a fence scrape per torrent and waits for it
    for s in 0..n_slots {
        let _ = w.slots[s].conn.as_mut().unwrap().send_text(&scrape_json(Some(&ct), false));
    }
    let t0 = Instant::now();
    let mut all: Vec<(usize, Msg)> = Vec::new();
    let mut fences = vec![0usize; n_slots];
    while t0.elapsed() < Duration::from_millis(20_000) && fences.iter().any(|f| *f == 0) {
        w.pump_all(3);
        for (slot, m) in w.take_new() {
            if slot < n_slots && matches!(m, Msg::ScrapeReply { .. }) {
                fences[slot] += 1;
            }
            all.push((slot, m));
        }
    }
    w.pump_all(30);
    all.extend(w.take_new());
    report.eval();
    if fences.iter().any(|f| *f == 0) {
        fail!("ws.live.scrape_not_answered", "routing", "concurrent phase: some connection's scrape was never answered".to_string());
    }
    let mut per_offer: BTreeMap<[u8; 20], Vec<usize>> = BTreeMap::new();
    for (slot, m) in all.iter() {
        if let Msg::Offer { hash, from_peer, offer_id, .. } = m {
            report.eval();
            match sent_offers.get(offer_id) {
                None => fail!("ws.live.offer_content", "routing", format!("concurrent phase: connection {} received an offer id nobody sent", slot)),
                Some((sender, t)) => {
                    let expect_pid = pid_of(w.slots[*sender].id.key, 100 + t);
                    if *hash != ct[*t] || *from_peer != expect_pid {
                        fail!("ws.live.offer_content", "routing", "concurrent phase: offer tagged with the wrong torrent / sender".to_string());
                    }
                    if slot == sender {
                        fail!("ws.live.offer_to_sender", "routing", format!("concurrent phase: connection {} received its own offer", slot));
                    }
                    // the receiver must be a member of that torrent (it announced it in this phase)
                    if *slot >= n_slots || !w.slots[*slot].announced.contains_key(&ct[*t]) {
                        fail!("ws.live.offer_misrouted", "routing", format!("concurrent phase: offer for torrent {} delivered to connection {} which never announced it", t, slot));
                    }
                    per_offer.entry(*offer_id).or_default().push(*slot);
                }
            }
        }
    }
    for (oid, receivers) in per_offer.iter() {
        if receivers.len() > 1 {
            fail!("ws.live.offer_forwarded_twice", "routing", format!("concurrent phase: offer {} delivered to {} connections", vcore::hex(&oid[..8]), receivers.len()));
        }
    }
    report.add("concurrent.offers_sent", sent_offers.len() as u64);
    report.add("concurrent.offers_delivered", per_offer.len() as u64);
    if !per_offer.is_empty() {
        report.nontrivial(vcore::fnv(format!("concurrent/{}", w.label).as_bytes()));
    }
    // scrape totals at quiescence: every member is a leecher
    for (k, t) in ct.iter().enumerate() {
        let members_v4 = (0..n_slots).filter(|s| !w.slots[*s].v6 && w.slots[*s].announced.contains_key(t)).count();
        let c = w.slots[obs_v4].conn.as_mut().unwrap();
        let _ = c.send_text(&scrape_json(Some(&[*t]), true));
        let ok = w.wait_fence(obs_v4, t, 12_000);
        let new = w.take_new();
        report.eval();
        let got = new.iter().find_map(|(slot, m)| if *slot == obs_v4 { if let Msg::ScrapeReply { files } = m { Some(files.iter().find(|f| f.0 == *t).map(|f| f.2 as usize).unwrap_or(0)) } else { None } } else { None });
        if !ok || got != Some(members_v4) {
            fail!("ws.live.scrape_counts", "reference", format!("concurrent phase: torrent {} has {} IPv4 members, scrape says {:?}", k, members_v4, got));
        }
    }
    // accept distribution over the socket workers
    let dist: Vec<u64> = (0..sw).map(|i| counter(&format!("ws.accepted.{}", i))).collect();
    report.extra.insert("accept_distribution".into(), json!(dist));
    if sw > 1 && dist.iter().filter(|d| **d > 0).count() < 2 {
        report.inconclusive(format!("all connections landed on one socket worker ({:?})", dist));
    }
    report.sample(json!({"config": w.label, "accept_distribution": dist, "last_ops": w.script.iter().rev().take(6).collect::<Vec<_>>()}));
    let exited = w.tracker.exit.lock().unwrap().clone();
    if let Some(e) = exited {
        fail!("ws.live.tracker_exited", "crash", format!("run() returned during the workload: {}", e));
    }
    let _ = w.swarm_workers;
}


// ------------------------------------------------------------------------------------------------
// sequential helpers for the small scenarios
// ------------------------------------------------------------------------------------------------

/// send one message, collect what this connection receives within `ms` after the first reply (or nothing)
fn ask(c: &mut WsConn, msg: &str, ms: u64) -> Vec<Msg> {
    let start = c.log.len();
    let _ = c.send_text(msg);
    let t0 = Instant::now();
    let mut first: Option<Instant> = None;
    loop {
        c.pump();
        if c.log.len() > start && first.is_none() {
            first = Some(Instant::now());
        }
        if let Some(f) = first {
            if f.elapsed() > Duration::from_millis(15) {
                break;
            }
        }
        if c.closed || t0.elapsed() > Duration::from_millis(ms) {
            break;
        }
        std::thread::sleep(Duration::from_micros(300));
    }
    c.log[start..].iter().filter_map(|m| if let Incoming::Text(j, raw) = m { Some(classify(j, raw)) } else { None }).collect()
}

fn scrape_counts(c: &mut WsConn, h: &[u8; 20]) -> Option<(u64, u64)> {
    for m in ask(c, &scrape_json(Some(&[*h]), true), 12_000) {
        if let Msg::ScrapeReply { files } = m {
            return Some(files.iter().find(|f| f.0 == *h).map(|f| (f.1, f.2)).unwrap_or((0, 0)));
        }
    }
    None
}

fn pid_n(n: u8) -> [u8; 20] {
    let mut p = [0x8au8; 20];
    p[0] = n;
    p
}

// ------------------------------------------------------------------------------------------------
// address (C03): IPv4, IPv4-mapped and IPv6 connections; scrapes see the right family
// ------------------------------------------------------------------------------------------------

fn scenario_address(args: &Args, report: &mut Report) {
    let sw = args.usize("socket_workers", 2);
    let ww = args.usize("swarm_workers", 2);
    aquatic_common::verif::set_clock(Some(1000));
    let tracker = match start(base_config(sw, ww)) {
        Ok(t) => t,
        Err(e) => {
            report.inconclusive(format!("tracker start: {}", e));
            return;
        }
    };
    let case = json!({"engine":"ws_live","scenario":"address","config":format!("{}x{}", sw, ww)});
    let mapped_target = std::net::SocketAddr::new(IpAddr::V6(Ipv4Addr::LOCALHOST.to_ipv6_mapped()), tracker.port);
    for round in 0..args.usize("rounds", 8) {
        let h = hash_n(0x88, round as u8, round);
        // (description, target, bind, is IPv4 host)
        let sources: Vec<(&str, std::net::SocketAddr, Option<IpAddr>, bool)> = vec![
            ("plain IPv4 connection", tracker.addr_v4(), Some(IpAddr::V4(Ipv4Addr::new(127, 0, 21, 1))), true),
            ("IPv4 host through an AF_INET6 socket (IPv4-mapped)", mapped_target, None, true),
            ("second plain IPv4 connection", tracker.addr_v4(), Some(IpAddr::V4(Ipv4Addr::new(127, 0, 21, 2))), true),
            ("IPv6 connection (::1)", tracker.addr_v6(), None, false),
        ];
        let mut conns: Vec<WsConn> = Vec::new();
        let (mut n4, mut n6) = (0u64, 0u64);
        for (k, (what, target, bind, is_v4)) in sources.iter().enumerate() {
            let mut c = match WsConn::open(*target, *bind) {
                Ok(c) => c,
                Err(e) => {
                    report.inconclusive(format!("{}: connect failed: {}", what, e));
                    return;
                }
            };
            let replies = ask(&mut c, &announce_json(&h, &pid_n(k as u8), Some("started"), Some(1), None, None), 12_000);
            if *is_v4 {
                n4 += 1
            } else {
                n6 += 1
            }
            let want = if *is_v4 { n4 } else { n6 };
            report.eval();
            match replies.iter().find_map(|m| if let Msg::AnnounceReply { complete, incomplete, .. } = m { Some(complete + incomplete) } else { None }) {
                Some(total) if total == want => {}
                other => report.violation("ws.live.family_classification", "address", format!("{}: announce reply counts {:?} peers, expected {} in its ({}) swarm", what, other, want, if *is_v4 { "IPv4" } else { "IPv6" }), case.clone()),
            }
            report.nontrivial(vcore::fnv(format!("src/{}", k).as_bytes()));
            conns.push(c);
        }
        // scrapes from each connection see their own family's swarm
        for (k, (what, _, _, is_v4)) in sources.iter().enumerate() {
            let got = scrape_counts(&mut conns[k], &h).map(|x| x.0 + x.1);
            let want = if *is_v4 { n4 } else { n6 };
            report.eval();
            if got != Some(want) {
                report.violation("ws.live.family_classification", "address", format!("{}: scrape sees {:?} peers, expected {}", what, got, want), case.clone());
            }
        }
        if round == 0 {
            report.sample(json!({"sources": sources.iter().map(|s| s.0).collect::<Vec<_>>(), "ipv4_swarm": n4, "ipv6_swarm": n6}));
        }
    }
}

// ------------------------------------------------------------------------------------------------
// access (C11), expiry (C10)
// ------------------------------------------------------------------------------------------------

fn scenario_access(args: &Args, report: &mut Report) {
    let deny = args.get("mode") == Some("deny");
    let sw = args.usize("socket_workers", 2);
    let ww = args.usize("swarm_workers", 2);
    let tmp = format!("{}/ws_access_{}", args.str("tmpdir", "/verif/evidence/tmp"), std::process::id());
    std::fs::create_dir_all(&tmp).unwrap();
    let list_path = format!("{}/list.txt", tmp);
    let (h1, h2, h3) = (hash_n(0x89, 0, 1), hash_n(0x89, 1, 2), hash_n(0x89, 2, 3));
    let write_list = |hs: &[[u8; 20]]| std::fs::write(&list_path, hs.iter().map(|h| format!("{}\n", vcore::hex(h))).collect::<String>()).unwrap();
    write_list(&[h1]);
    aquatic_common::verif::set_clock(Some(1000));
    let mut config = base_config(sw, ww);
    config.access_list.mode = if deny { aquatic_common::access_list::AccessListMode::Deny } else { aquatic_common::access_list::AccessListMode::Allow };
    config.access_list.path = list_path.clone().into();
    let tracker = match start(config) {
        Ok(t) => t,
        Err(e) => {
            report.inconclusive(format!("tracker start: {}", e));
            return;
        }
    };
    let case = json!({"engine":"ws_live","scenario":"access","mode": if deny {"deny"} else {"allow"},"config":format!("{}x{}", sw, ww)});
    let permitted = |listed: bool| if deny { !listed } else { listed };
    let mut pid_ctr = 0u8;
    // Sessions: every first announce happens on a fresh connection (one peer id per torrent and connection); the
    // connections stay open and - after every (attempted) reload - each of them announces its torrent AGAIN on the same
    // connection: the statement's "decisions follow the new list" holds for clients that were there before the reload too
    // (seeded C11c consulted the list only at a connection's first announce of a hash).
    struct Session {
        conn: WsConn,
        h: usize,
        pid: [u8; 20],
    }
    let hashes = [h1, h2, h3];
    let mut listed = [true, false, false];
    let mut sessions: Vec<Session> = Vec::new();
    let mut announce = |report: &mut Report, sessions: &mut Vec<Session>, h: usize, listed: &[bool; 3], phase: &str| {
        pid_ctr += 1;
        let pid = pid_n(pid_ctr);
        let mut c = WsConn::open(tracker.addr_v4(), None).unwrap();
        let replies = ask(&mut c, &announce_json(&hashes[h], &pid, Some("started"), Some(1), None, None), 12_000);
        report.eval();
        let ok = permitted(listed[h]);
        let got_reply = replies.iter().any(|m| matches!(m, Msg::AnnounceReply { .. }));
        let got_error = replies.iter().any(|m| matches!(m, Msg::Error { .. }));
        if ok != got_reply || ok == got_error {
            report.violation(if ok { "ws.live.permitted_announce_refused" } else { "ws.live.forbidden_announce_accepted" }, "access", format!("{}: announce of a {} hash on a fresh connection answered with {:?}", phase, if listed[h] { "listed" } else { "unlisted" }, replies), case.clone());
        }
        sessions.push(Session { conn: c, h, pid });
    };
    let reannounce_all = |report: &mut Report, sessions: &mut Vec<Session>, listed: &[bool; 3], phase: &str| {
        for (i, s) in sessions.iter_mut().enumerate() {
            let event = if i % 2 == 0 { None } else { Some("completed") };
            let replies = ask(&mut s.conn, &announce_json(&hashes[s.h], &s.pid, event, Some((i % 2) as u64), None, None), 12_000);
            report.eval();
            report.count("access.reannounce_on_kept_connection");
            let ok = permitted(listed[s.h]);
            let got_reply = replies.iter().any(|m| matches!(m, Msg::AnnounceReply { .. }));
            let got_error = replies.iter().any(|m| matches!(m, Msg::Error { .. }));
            if ok != got_reply || ok == got_error {
                report.violation(if ok { "ws.live.permitted_reannounce_refused" } else { "ws.live.forbidden_reannounce_accepted" }, "access", format!("{}: re-announce of a {} hash on the connection that announced it earlier (session {}) answered with {:?}", phase, if listed[s.h] { "listed" } else { "unlisted" }, i, replies), case.clone());
            }
        }
    };
    // stored peers per torrent = sessions of a currently permitted torrent (each announced with its own peer id)
    let check_state = |report: &mut Report, obs: &mut WsConn, sessions: &Vec<Session>, listed: &[bool; 3], phase: &str| {
        for h in 0..3 {
            let want = if permitted(listed[h]) { sessions.iter().filter(|s| s.h == h).count() as u64 } else { 0 };
            let got = scrape_counts(obs, &hashes[h]).map(|x| x.0 + x.1);
            report.eval();
            if got != Some(want) {
                let sig = if !permitted(listed[h]) { if phase.contains("clean") { "ws.live.forbidden_torrent_survived_clean" } else { "ws.live.refused_announce_created_state" } } else { "ws.live.permitted_torrent_removed_by_clean" };
                report.violation(sig, "access", format!("{}: scrape of torrent {} shows {:?}, expected {}", phase, h, got, want), case.clone());
            }
        }
    };
    let mut obs = WsConn::open(tracker.addr_v4(), None).unwrap();
    for h in 0..3 {
        announce(report, &mut sessions, h, &listed, "initial list");
    }
    check_state(report, &mut obs, &sessions, &listed, "initial list");
    reannounce_all(report, &mut sessions, &listed, "initial list");
    check_state(report, &mut obs, &sessions, &listed, "initial list, after re-announces");
    report.nontrivial(vcore::fnv(format!("initial/{}", deny).as_bytes()));
    write_list(&[h2]);
    let ok0 = counter("access_list.update.ok");
    unsafe {
        libc::kill(libc::getpid(), libc::SIGUSR1);
    }
    if !vcore::net::wait_until(5000, || counter("access_list.update.ok") > ok0) {
        report.inconclusive("reload not observed");
        return;
    }
    listed = [false, true, false];
    announce(report, &mut sessions, 1, &listed, "after reload");
    announce(report, &mut sessions, 0, &listed, "after reload");
    // old clients first meet the new list before the cleaning pass ...
    reannounce_all(report, &mut sessions, &listed, "after reload, before the cleaning pass");
    if !wait_cleans(2, ww) {
        report.inconclusive("no cleaning pass observed (ws.clean_done)");
        return;
    }
    check_state(report, &mut obs, &sessions, &listed, "after reload + cleaning pass");
    // ... and again after it removed the forbidden torrents: a refused re-announce must not re-create them
    reannounce_all(report, &mut sessions, &listed, "after reload and cleaning pass");
    check_state(report, &mut obs, &sessions, &listed, "after reload + cleaning pass + re-announces");
    report.nontrivial(vcore::fnv(format!("reload/{}", deny).as_bytes()));
    for (k, bad) in ["zz\n".to_string(), format!("{}\n{}x\n", vcore::hex(&h3), vcore::hex(&h1)), "MISSING".to_string()].iter().enumerate() {
        if bad == "MISSING" {
            let _ = std::fs::remove_file(&list_path);
        } else {
            std::fs::write(&list_path, bad).unwrap();
        }
        let (e0, o0) = (counter("access_list.update.err"), counter("access_list.update.ok"));
        unsafe {
            libc::kill(libc::getpid(), libc::SIGUSR1);
        }
        if !vcore::net::wait_until(5000, || counter("access_list.update.err") > e0 || counter("access_list.update.ok") > o0) {
            report.inconclusive("failing reload not observed");
            return;
        }
        report.eval();
        if counter("access_list.update.ok") > o0 {
            report.violation("ws.live.malformed_list_accepted", "access", format!("reload #{} of a malformed / missing file succeeded", k), case.clone());
        }
        for h in [1usize, 0, 2] {
            announce(report, &mut sessions, h, &listed, "after failed reload");
        }
        reannounce_all(report, &mut sessions, &listed, "after failed reload");
        check_state(report, &mut obs, &sessions, &listed, "after failed reload");
        report.nontrivial(vcore::fnv(format!("failed/{}/{}", k, deny).as_bytes()));
    }
    // a second successful reload that re-admits torrent 0: sessions refused so far are served again on their old connections
    write_list(&[h1, h2]);
    let ok1 = counter("access_list.update.ok");
    unsafe {
        libc::kill(libc::getpid(), libc::SIGUSR1);
    }
    if !vcore::net::wait_until(5000, || counter("access_list.update.ok") > ok1) {
        report.inconclusive("second reload not observed");
        return;
    }
    listed = [true, true, false];
    reannounce_all(report, &mut sessions, &listed, "after second reload");
    if !wait_cleans(2, ww) {
        report.inconclusive("no cleaning pass observed (ws.clean_done)");
        return;
    }
    check_state(report, &mut obs, &sessions, &listed, "after second reload + cleaning pass");
    report.nontrivial(vcore::fnv(format!("reload2/{}", deny).as_bytes()));
    report.sample(json!({"mode": if deny {"deny"} else {"allow"}}));
    let _ = std::fs::remove_dir_all(&tmp);
}

// ------------------------------------------------------------------------------------------------
// connections over time (C17: every scrape / announce gets its reply on the connection that sent it; a connection's
// peers disappear only when the connection is closed or dropped)
// ------------------------------------------------------------------------------------------------

/// The tracker closes a connection only when no announce / scrape reply has been sent to it for `max_connection_idle`
/// seconds of its whole-second clock. Connections that get a reply every idle/2 seconds (mock clock moved around the
/// request inside one cleaning interval, as in the http keepalive scenario) must survive every connection-cleaning pass,
/// keep getting replies, and keep their peer entries.
fn scenario_keepalive(args: &Args, report: &mut Report) {
    let sw = args.usize("socket_workers", 2);
    let ww = args.usize("swarm_workers", 2);
    let idle = args.u64("idle", 4) as u32;
    let interval = args.u64("interval", 3);
    let rounds = args.usize("rounds", 4);
    let mut t = 1000u32;
    aquatic_common::verif::set_clock(Some(t));
    let mut config = base_config(sw, ww);
    config.cleaning.max_connection_idle = idle;
    config.cleaning.connection_cleaning_interval = interval;
    config.cleaning.max_peer_age = 1_000_000;
    let tracker = match start(config) {
        Ok(t) => t,
        Err(e) => {
            report.inconclusive(format!("tracker start: {}", e));
            return;
        }
    };
    let case = json!({"engine":"ws_live","scenario":"keepalive","config":format!("{}x{}", sw, ww),"max_connection_idle":idle,"connection_cleaning_interval":interval});
    let wait_pass = |n: u64| vws::live::wait_all_threads("ws.connections_cleaned", n, sw, 60_000);
    let h = hash_n(0x8b, 0, 1);
    let n_conns = 2 * sw + 2;
    let mut conns: Vec<WsConn> = Vec::new();
    for _ in 0..n_conns {
        match WsConn::open(tracker.addr_v4(), None) {
            Ok(c) => conns.push(c),
            Err(e) => {
                report.inconclusive(format!("connect: {:?}", e));
                return;
            }
        }
    }
    // each connection owns one peer of the torrent
    for (k, c) in conns.iter_mut().enumerate() {
        let replies = ask(c, &announce_json(&h, &pid_n(100 + k as u8), Some("started"), Some(1), None, None), 12_000);
        report.eval();
        if !replies.iter().any(|m| matches!(m, Msg::AnnounceReply { .. })) {
            report.inconclusive(format!("set-up announce of connection {} not answered: {:?}", k, replies));
            return;
        }
    }
    let request_all = |report: &mut Report, conns: &mut Vec<WsConn>, t: u32, phase: &str| -> bool {
        let mut ok = true;
        for (k, c) in conns.iter_mut().enumerate() {
            let got = if k % 2 == 0 { scrape_counts(c, &h).map(|x| x.0 + x.1) } else {
                let replies = ask(c, &announce_json(&h, &pid_n(100 + k as u8), None, Some(1), None, None), 12_000);
                replies.iter().find_map(|m| if let Msg::AnnounceReply { complete, incomplete, .. } = m { Some(*complete + *incomplete) } else { None })
            };
            report.eval();
            if got != Some(n_conns as u64) {
                ok = false;
                report.violation(if got.is_none() { "ws.live.busy_connection_lost" } else { "ws.live.peer_of_open_connection_missing" }, "routing", format!("{} (clock {}): connection {} (a reply at most {} s ago, limit {} s): request answered with total {:?}, expected {} peers (one per open connection); closed={}", phase, t, k, idle / 2, idle, got, n_conns, c.closed), case.clone());
            }
        }
        ok
    };
    if !wait_pass(1) {
        report.inconclusive("no connection cleaning pass observed (ws.connections_cleaned)");
        return;
    }
    if !request_all(report, &mut conns, t, "first round") {
        return;
    }
    let half = idle / 2;
    for round in 0..rounds {
        t += half;
        aquatic_common::verif::set_clock(Some(t));
        if !request_all(report, &mut conns, t, &format!("round {} mid-interval request", round)) {
            return;
        }
        t += idle - half;
        aquatic_common::verif::set_clock(Some(t));
        if !wait_pass(1) {
            report.inconclusive("no connection cleaning pass observed (ws.connections_cleaned)");
            return;
        }
        if !request_all(report, &mut conns, t, &format!("round {} after the cleaning pass", round)) {
            return;
        }
        report.nontrivial(vcore::fnv(format!("keepalive/{}x{}/{}", sw, ww, round).as_bytes()));
        report.count("keepalive.rounds_survived");
    }
    report.sample(json!({"case": case, "connections": n_conns, "rounds": rounds}));
}

// ------------------------------------------------------------------------------------------------
// announce immediately followed by the end of the connection (C17 last clause / C08)
// ------------------------------------------------------------------------------------------------

/// Every connection sends one announce (own peer id, one torrent) and is closed or reset at once, without reading the
/// reply. When the tracker has processed all closures (hook counters), the torrent must hold no peer: "when a connection
/// is closed or dropped, every peer entry it created disappears ... without any further message from the client".
/// The announce travels the request mesh, the closure the control mesh: if the closure overtakes the announce, the
/// entry is created after its connection is gone and nothing ever removes it (clock frozen: no expiry).
fn scenario_closerace(args: &Args, report: &mut Report) {
    let sw = args.usize("socket_workers", 2);
    let ww = args.usize("swarm_workers", 2);
    let n = args.usize("connections", 400);
    aquatic_common::verif::set_clock(Some(1000));
    let config = base_config(sw, ww);
    let tracker = match start(config) {
        Ok(t) => t,
        Err(e) => {
            report.inconclusive(format!("tracker start: {}", e));
            return;
        }
    };
    let case = json!({"engine":"ws_live","scenario":"closerace","config":format!("{}x{}", sw, ww),"connections":n});
    let h = hash_n(0x8c, 0, 1);
    let cleanup0 = counter("ws.cleanup_done");
    let mut opened = 0u64;
    for i in 0..n {
        if let Ok(mut c) = WsConn::open(tracker.addr_v4(), None) {
            opened += 1;
            let mut pid = [0x8cu8; 20];
            pid[0] = (i % 251) as u8;
            pid[1] = (i / 251) as u8;
            let _ = c.send_text(&announce_json(&h, &pid, Some("started"), Some(1), None, None));
            match i % 3 {
                0 => c.reset(),
                1 => drop(c),
                _ => {
                    let _ = c.wait_message(50);
                    c.reset();
                }
            }
        }
        report.eval();
    }
    // all closures processed by the socket workers ...
    if !vcore::net::wait_until(60_000, || counter("ws.cleanup_done") >= cleanup0 + opened) {
        report.inconclusive(format!("only {} of {} connection clean-ups observed", counter("ws.cleanup_done") - cleanup0, opened));
        return;
    }
    // ... and by the swarm workers: poll the observer's scrape until it is empty (event, not deadline), judged by canaries
    let mut obs = WsConn::open(tracker.addr_v4(), None).unwrap();
    let t0 = Instant::now();
    let mut got;
    loop {
        got = scrape_counts(&mut obs, &h);
        report.eval();
        match got {
            Some((0, 0)) => break,
            Some(_) if t0.elapsed() < Duration::from_secs(20) => std::thread::sleep(Duration::from_millis(200)),
            _ => break,
        }
    }
    report.nontrivial(vcore::fnv(format!("closerace/{}x{}", sw, ww).as_bytes()));
    match got {
        Some((0, 0)) => {}
        Some((s, l)) => {
            if tracker_responsive(tracker.addr_v4()) {
                report.add("closerace.surviving_entries", s + l);
                report.violation("ws.close.overtakes_inflight_announce", "ownership", format!("{} connections each announced one peer and were closed / reset at once; all {} clean-ups were processed, yet 20 s later the torrent still holds {} peer(s) whose connections are gone", opened, opened, s + l), case.clone());
            } else {
                report.inconclusive("tracker does not answer canaries".to_string());
            }
        }
        None => report.violation("ws.live.scrape_not_answered", "routing", "observer scrape after the close race not answered".to_string(), case.clone()),
    }
    report.sample(json!({"case": case, "opened": opened, "final": format!("{:?}", got)}));
}

fn scenario_expiry(args: &Args, report: &mut Report) {
    let sw = args.usize("socket_workers", 1);
    let ww = args.usize("swarm_workers", 2);
    let (age, offer_age) = (30u32, 10u32);
    let t0 = 5000u32;
    aquatic_common::verif::set_clock(Some(t0));
    let mut config = base_config(sw, ww);
    config.cleaning.max_peer_age = age;
    config.cleaning.max_offer_age = offer_age;
    let tracker = match start(config) {
        Ok(t) => t,
        Err(e) => {
            report.inconclusive(format!("tracker start: {}", e));
            return;
        }
    };
    let case = json!({"engine":"ws_live","scenario":"expiry","config":format!("{}x{}", sw, ww)});
    let ha = hash_n(0x8b, 0, 1); // peers
    let hb = hash_n(0x8b, 1, 2); // offers
    let mut conns: Vec<WsConn> = (0..5).map(|_| WsConn::open(tracker.addr_v4(), None).unwrap()).collect();
    let mut obs = WsConn::open(tracker.addr_v4(), None).unwrap();
    // three peers at t0 on torrent a; two peers on torrent b
    for k in 0..3 {
        ask(&mut conns[k], &announce_json(&ha, &pid_n(k as u8), Some("started"), Some(k as u64 % 2), None, None), 12_000);
    }
    for k in 3..5 {
        ask(&mut conns[k], &announce_json(&hb, &pid_n(k as u8), Some("started"), Some(1), None, None), 12_000);
    }
    // peer 3 offers twice to its only other peer (4): offer X at t0 (answered in time), offer Y at t0 (expires)
    let ox = {
        let mut o = [0x8cu8; 20];
        o[0] = 1;
        o
    };
    let oy = {
        let mut o = [0x8cu8; 20];
        o[0] = 2;
        o
    };
    ask(&mut conns[3], &announce_json(&hb, &pid_n(3), None, Some(1), Some(&[(ox, "x".into()), (oy, "y".into())]), None), 12_000);
    std::thread::sleep(Duration::from_millis(100));
    conns[4].pump();
    let got_offers = conns[4].log.iter().filter(|m| matches!(m, Incoming::Text(j, raw) if matches!(classify(j, raw), Msg::Offer { .. }))).count();
    report.eval();
    // max_offers default 10, one other peer: exactly one of the two offers is forwarded (min(2, 10, 1))
    if got_offers != 1 {
        report.violation("ws.live.offer_count", "expiry", format!("{} offers forwarded to the only other peer, expected 1", got_offers), case.clone());
        return;
    }
    let forwarded: [u8; 20] = conns[4].log.iter().find_map(|m| if let Incoming::Text(j, raw) = m { if let Msg::Offer { offer_id, .. } = classify(j, raw) { Some(offer_id) } else { None } } else { None }).unwrap();
    // re-announce of peer 0 at t0+10: fresh deadline
    aquatic_common::verif::set_clock(Some(t0 + offer_age - 1));
    if !wait_cleans(2, ww) {
        report.inconclusive("no cleaning pass observed");
        return;
    }
    // offer still pending one second before its deadline: the answer is forwarded
    let start3 = conns[3].log.len();
    let r4 = ask(&mut conns[4], &announce_json(&hb, &pid_n(4), None, Some(1), None, Some((&pid_n(3), &forwarded, "ans"))), 12_000);
    std::thread::sleep(Duration::from_millis(100));
    conns[3].pump();
    let delivered = conns[3].log[start3..].iter().any(|m| matches!(m, Incoming::Text(j, raw) if matches!(classify(j, raw), Msg::Answer { .. })));
    report.eval();
    if !delivered || r4.iter().any(|m| matches!(m, Msg::Error { .. })) {
        report.violation("ws.live.offer_expired_early", "expiry", format!("answer at clock offer+{} (max_offer_age {}) after two cleaning passes was not forwarded", offer_age - 1, offer_age), case.clone());
    }
    report.nontrivial(vcore::fnv(b"offer_before_deadline"));
    // a second offer, then clean at its deadline: the answer is refused
    aquatic_common::verif::set_clock(Some(t0 + 20));
    ask(&mut conns[3], &announce_json(&hb, &pid_n(3), None, Some(1), Some(&[(oy, "y2".into())]), None), 12_000);
    ask(&mut conns[0], &announce_json(&ha, &pid_n(0), None, Some(0), None, None), 12_000); // peer 0 of torrent a re-announces at t0+20
    aquatic_common::verif::set_clock(Some(t0 + 20 + offer_age));
    if !wait_cleans(2, ww) {
        report.inconclusive("no cleaning pass observed");
        return;
    }
    let start3 = conns[3].log.len();
    let r4 = ask(&mut conns[4], &announce_json(&hb, &pid_n(4), None, Some(1), None, Some((&pid_n(3), &oy, "late"))), 12_000);
    std::thread::sleep(Duration::from_millis(100));
    conns[3].pump();
    let delivered = conns[3].log[start3..].iter().any(|m| matches!(m, Incoming::Text(j, raw) if matches!(classify(j, raw), Msg::Answer { .. })));
    report.eval();
    if delivered || !r4.iter().any(|m| matches!(m, Msg::Error { .. })) {
        report.violation("ws.live.offer_survived_deadline", "expiry", format!("answer after a cleaning pass at the offer's deadline: delivered={} replies {:?}", delivered, r4), case.clone());
    }
    report.nontrivial(vcore::fnv(b"offer_at_deadline"));
    // peers of torrent a: announced at t0 (1, 2) and t0+20 (0). now at t0+30 = deadline of 1 and 2
    for (clock, want) in [(t0 + age, 1u64), (t0 + 20 + age - 1, 1), (t0 + 20 + age, 0)] {
        aquatic_common::verif::set_clock(Some(clock));
        if !wait_cleans(2, ww) {
            report.inconclusive("no cleaning pass observed");
            return;
        }
        let got = scrape_counts(&mut obs, &ha).map(|x| x.0 + x.1);
        report.eval();
        if got != Some(want) {
            report.violation(if got.unwrap_or(0) < want { "ws.live.peer_expired_early" } else { "ws.live.peer_survived_deadline" }, "expiry", format!("clock {} (announces at {} and {}, max_peer_age {}): scrape {:?}, expected {}", clock, t0, t0 + 20, age, got, want), case.clone());
        }
        report.nontrivial(vcore::fnv(format!("peer/{}", clock - t0).as_bytes()));
    }
    report.sample(json!({"max_peer_age": age, "max_offer_age": offer_age, "t0": t0}));
}

// ------------------------------------------------------------------------------------------------
// corpus (C12 live)
// ------------------------------------------------------------------------------------------------

fn scenario_corpus(args: &Args, report: &mut Report) {
    let sw = args.usize("socket_workers", 2);
    let ww = args.usize("swarm_workers", 2);
    aquatic_common::verif::set_clock(Some(1000));
    let tracker = match start(base_config(sw, ww)) {
        Ok(t) => t,
        Err(e) => {
            report.inconclusive(format!("tracker start: {}", e));
            return;
        }
    };
    let case = json!({"engine":"ws_live","scenario":"corpus","seed":args.seed()});
    let mut r = SplitMix::new(args.seed()).fork(0xC1217);
    let h = hash_n(0x8d, 0, 1);
    let mut keeper: Vec<WsConn> = Vec::new();
    for k in 0..3u8 {
        let mut c = WsConn::open(tracker.addr_v4(), None).unwrap();
        ask(&mut c, &announce_json(&h, &pid_n(k), Some("started"), Some(k as u64 % 2), None, None), 12_000);
        keeper.push(c);
    }
    let n = args.usize("cases", 1500);
    let valid = announce_json(&h, &pid_n(77), Some("started"), Some(1), Some(&[([1; 20], "sdp".into())]), None);
    for i in 0..n {
        let mut b: Vec<u8> = match r.below(8) {
            0 => valid.clone().into_bytes(),
            1 => scrape_json(Some(&[h]), false).into_bytes(),
            2 => "[".repeat(1 + r.usize(30_000)).into_bytes(),
            3 => format!("{}{}", "{\"a\":".repeat(1 + r.usize(10_000)), "1").into_bytes(),
            4 => {
                let k = r.usize(300);
                r.vec(k)
            }
            5 => format!("{{\"action\":\"announce\",\"info_hash\":\"{}\",\"peer_id\":\"{}\"}}", "a".repeat(r.usize(60)), "\u{e9}".repeat(r.usize(40))).into_bytes(),
            6 => format!("{{\"action\":\"scrape\",\"info_hash\":[{}]}}", vec!["\"aaaaaaaaaaaaaaaaaaaa\""; r.usize(2500)].join(",")).into_bytes(),
            _ => format!("{{\"action\":\"announce\",\"info_hash\":{},\"peer_id\":{},\"offers\":[{}]}}", qid(&h), qid(&pid_n(78)), vec!["{\"offer\":{\"type\":\"offer\",\"sdp\":\"x\"},\"offer_id\":\"bbbbbbbbbbbbbbbbbbbb\"}"; r.usize(600)].join(",")).into_bytes(),
        };
        match r.below(5) {
            0 => {
                let k = r.usize(b.len() + 1);
                b.truncate(k)
            }
            1 => {
                if !b.is_empty() {
                    let bit = r.usize(b.len() * 8);
                    b[bit / 8] ^= 1 << (bit % 8)
                }
            }
            _ => {}
        }
        if let Ok(mut c) = WsConn::open(if i % 2 == 0 { tracker.addr_v4() } else { tracker.addr_v6() }, None) {
            let _ = if r.chance(1, 2) { c.send_binary(&b) } else { c.send_text(&String::from_utf8_lossy(&b)) };
            if r.chance(1, 3) {
                let _ = c.send_binary(&b);
            }
            let _ = c.wait_message(if i % 40 == 0 { 200 } else { 3 });
            if r.chance(1, 2) {
                c.reset();
            }
        }
        report.eval();
        report.nontrivial(vcore::fnv(&b[..b.len().min(32)]));
        if i % 100 == 0 {
            let exited = tracker.exit.lock().unwrap().clone();
            if let Some(e) = exited {
                report.violation("ws.live.tracker_exited", "crash", format!("run() returned after hostile input #{}: {}", i, e), case.clone());
                return;
            }
        }
    }
    // The three keepers must still be there. Hostile *valid* announces (and their bit-flipped but still valid variants)
    // created peers of their own; those go away when the tracker has processed the closure of their connections - an
    // event, not a deadline: poll (up to 90 s, sooner when reached), judge a leftover only while the tracker answers canaries.
    let mut obs = WsConn::open(tracker.addr_v4(), None).unwrap();
    let t0 = Instant::now();
    let mut got;
    let mut polls = 0u64;
    loop {
        got = scrape_counts(&mut obs, &h);
        report.eval();
        polls += 1;
        match got {
            Some((2, 1)) => break,
            Some((s, l)) if s >= 2 && l >= 1 && t0.elapsed() < Duration::from_secs(90) => std::thread::sleep(Duration::from_millis(200)),
            _ => break,
        }
    }
    report.add("corpus.final_state_polls", polls);
    match got {
        Some((2, 1)) => {}
        Some((s, l)) if s >= 2 && l >= 1 => {
            if tracker_responsive(tracker.addr_v4()) {
                report.violation("ws.close.overtakes_inflight_announce", "ownership", format!("90 s after {} hostile inputs (all their connections closed) the known torrent still shows {}/{}, expected 2 seeders and 1 leecher", n, s, l), case.clone());
            } else {
                report.inconclusive(format!("final state {}/{} after the corpus while the tracker does not answer canaries (starved machine)", s, l));
            }
        }
        other => report.violation("ws.live.state_changed_or_dead_after_hostile_input", "crash", format!("after {} hostile inputs the scrape of the known torrent gives {:?}, expected 2 seeders and 1 leecher", n, other), case.clone()),
    }
    report.sample(json!({"hostile_inputs": n, "kinds": ["valid announce with offer", "scrape", "nested [", "nested {\"a\":", "random bytes", "bad identifier lengths", "2500-hash scrape", "600 offers"]}));
    drop(keeper);
}

fn main() {
    vcore::init_logger_from_env();
    let args = Args::parse();
    let scenario = args.str("scenario", "routing");
    let mut report = Report::new("ws_live", "in-process ws tracker + hand-written WebSocket clients; per-connection message logs read with an independent JSON reader and checked against the ws reference model with connection ownership (recipients adopted from the log after checking they are legal); distinct = (operation kind, configuration, outcome class)");
    report.max_samples = 6;
    match scenario.as_str() {
        "routing" => scenario_routing(&args, &mut report),
        "address" => scenario_address(&args, &mut report),
        "access" => scenario_access(&args, &mut report),
        "keepalive" => scenario_keepalive(&args, &mut report),
        "closerace" => scenario_closerace(&args, &mut report),
        "expiry" => scenario_expiry(&args, &mut report),
        "corpus" => scenario_corpus(&args, &mut report),
        other => report.inconclusive(format!("unknown scenario {}", other)),
    }
    let undecided = UNDECIDED.load(std::sync::atomic::Ordering::SeqCst);
    if undecided > 0 {
        report.inconclusive(format!("{} expected reply(ies) could not be judged: the tracker did not answer canary connections either (starved machine)", undecided));
    }
    report.add("replies_that_arrived_after_the_first_wait(judged by canaries)", LATE_REPLIES.load(std::sync::atomic::Ordering::SeqCst));
    report.finish(&args.out());
}
