//! select_enum engine, WebTorrent part (C02): the real
//! `extract_response_peers` (offer recipients) under a scripted RNG,
//! exhaustive over both random offsets for every small case.

use std::collections::BTreeSet;

use aquatic_common::IndexMap;
use aquatic_ws::workers::swarm::verif_storage::extract_response_peers;
use serde_json::json;

use vcore::srng::{self, Scripted};
use vcore::{Args, Report, SplitMix};

fn check(returned: &[usize], members: &BTreeSet<usize>, sender: usize, limit: usize) -> Result<(), String> {
    let mut seen = BTreeSet::new();
    for p in returned {
        if *p == sender {
            return Err("sender chosen as its own offer recipient".into());
        }
        if !members.contains(p) {
            return Err(format!("recipient {} is not a stored member", p));
        }
        if !seen.insert(*p) {
            return Err(format!("recipient {} chosen twice", p));
        }
    }
    let others = members.iter().filter(|m| **m != sender).count();
    if returned.len() > limit {
        return Err(format!("{} recipients, limit {}", returned.len(), limit));
    }
    let want = others.min(limit);
    if returned.len() != want {
        return Err(format!("{} recipients, expected exactly min(others {}, limit {}) = {}", returned.len(), others, limit, want));
    }
    Ok(())
}

fn main() {
    let args = Args::parse();
    vcore::quiet_panics();
    let mut report = Report::new(
        "ws_select",
        "ws offer-recipient selection (extract_response_peers) with a scripted RNG: map size x limit x sender position (absent / every index) x every (offset1, offset2) outcome; \
         non-trivial = others > limit (two-half-range branch); distinct = (size, limit, position, scripted pair)",
    );
    match srng::self_check(130) {
        Ok(n) => report.add("scripted_rng_selfcheck_pairs", n),
        Err(e) => {
            report.inconclusive(e);
            report.finish(&args.out());
        }
    }
    let thorough = args.thorough();
    let max_size = args.usize("max_size", if thorough { 130 } else { 40 });
    let budget_s = args.u64("budget_s", if thorough { 240 } else { 40 });
    let mut meta = SplitMix::new(args.seed()).fork(0xC0208);
    let t0 = std::time::Instant::now();
    let mut exhaustive_cases = 0u64;
    let mut mismatch = 0u64;
    let replay = args.get("replay").map(|p| serde_json::from_str::<serde_json::Value>(&std::fs::read_to_string(p).unwrap()).unwrap());
    let sizes: Vec<usize> = match &replay {
        Some(r) => vec![r["size"].as_u64().unwrap() as usize],
        None => (args.usize("min_size", 0)..=max_size).collect(),
    };
    'sizes: for size in sizes {
        if t0.elapsed().as_secs() >= budget_s {
            report.note(format!("time budget reached before size {}", size));
            break;
        }
        // keys are not 0..n in order: insertion order differs from key order
        let keys: Vec<usize> = (0..size).map(|i| (i * 7919 + 13) % 100_003).collect();
        let map: IndexMap<usize, usize> = keys.iter().map(|k| (*k, *k)).collect();
        let members: BTreeSet<usize> = keys.iter().copied().collect();
        let limits: Vec<usize> = match &replay {
            Some(r) => vec![r["limit"].as_u64().unwrap() as usize],
            None => (0..=size + 3).collect(),
        };
        for limit in limits {
            let positions: Vec<Option<usize>> = match &replay {
                Some(r) => vec![r["pos"].as_u64().map(|x| x as usize)],
                None => {
                    if size <= 40 {
                        std::iter::once(None).chain((0..size).map(Some)).collect()
                    } else {
                        vec![None, Some(0), Some(1), Some(size / 2 - 1), Some(size / 2), Some(size / 2 + 1), Some(size - 2), Some(size - 1)]
                    }
                }
            };
            for pos in positions {
                if replay.is_none() && t0.elapsed().as_secs() >= budget_s {
                    report.note(format!("time budget reached inside size {} (limit {})", size, limit));
                    break 'sizes;
                }
                let sender = match pos {
                    Some(j) => keys[j],
                    None => 999_999,
                };
                let others = if pos.is_some() { size - 1 } else { size };
                let over = size > limit + 1; // the code's own branch condition; only used to pick scripts
                let mut scripts: Vec<(Vec<u32>, Option<(u64, u64)>)> = Vec::new();
                if let Some(r) = &replay {
                    scripts.push((r["script"].as_array().unwrap().iter().map(|x| x.as_u64().unwrap() as u32).collect(), None));
                } else if over {
                    let mid = (size / 2) as u64;
                    let per_half = (limit / 2) as u64 + 1;
                    let r1 = u64::max(1, mid.saturating_sub(per_half));
                    let r2 = u64::max(mid + 1, (size as u64).saturating_sub(per_half)) - mid;
                    let full = size <= 40 || r1 * r2 <= 256;
                    for k1 in 0..r1 {
                        for k2 in 0..r2 {
                            if full || (k1 == 0 || k1 == r1 - 1) && (k2 == 0 || k2 == r2 - 1) || meta.chance(1, 16) {
                                scripts.push((vec![srng::value_for(k1, r1), srng::value_for(k2, r2)], Some((k1, k2))));
                            }
                        }
                    }
                    if full {
                        exhaustive_cases += 1;
                    }
                    if size <= 10 {
                        for a in 0..12u64 {
                            for b in 0..12u64 {
                                scripts.push((vec![(a * 0x1555_5555 + 0x0aaa_aaaa) as u32, (b * 0x1555_5555 + 0x0555_5555) as u32], None));
                            }
                        }
                    }
                } else {
                    scripts.push((vec![0, 0], None));
                }
                for (script, intended) in scripts {
                    let mut rng = Scripted::new(script.clone());
                    let returned: Vec<usize> = extract_response_peers(&mut rng, &map, limit, sender, |k, _| *k);
                    report.eval();
                    if let Err(e) = check(&returned, &members, sender, limit) {
                        report.violation(
                            "ws.select.predicate",
                            "offers",
                            format!("map size {} limit {} sender {:?} rng script {:?}: {}", size, limit, pos, script, e),
                            json!({"engine":"ws_select","size":size,"limit":limit,"pos":pos,"script":script}),
                        );
                        continue 'sizes;
                    }
                    if others > limit {
                        if intended.is_some() && (rng.pos != 2 || rng.overrun) {
                            mismatch += 1;
                        }
                        report.nontrivial(vcore::fnv(format!("{}/{}/{:?}/{:?}", size, limit, pos, script).as_bytes()));
                        if report.samples.len() < 3 && size > 5 {
                            report.sample(json!({"size":size,"limit":limit,"sender_index":pos,"rng_script":script,"intended_offsets":intended,"returned":returned}));
                        }
                    }
                }
            }
        }
    }
    report.add("cases_with_every_offset_pair_enumerated", exhaustive_cases);
    report.add("scripted_draw_count_mismatch", mismatch);
    if mismatch > 0 && report.violations.is_empty() {
        report.inconclusive(format!("{} scripted runs in which the code did not consume exactly two RNG words", mismatch));
    }
    report.finish(&args.out());
}
