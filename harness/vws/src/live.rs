//! In-process WebTorrent tracker + a minimal hand-written WebSocket client
//! (so that RSTs, close frames and text/binary frames are under our control).

use std::io::{Read, Write};
use std::net::{IpAddr, Ipv6Addr, SocketAddr, TcpStream};
use std::sync::{Arc, Mutex};
use std::time::{Duration, Instant};

use aquatic_ws::config::Config;
use vcore::json::{self, J};

pub struct Tracker {
    pub port: u16,
    pub config: Config,
    pub exit: Arc<Mutex<Option<String>>>,
}

pub fn base_config(socket_workers: usize, swarm_workers: usize) -> Config {
    let port = vcore::net::free_tcp_port();
    let mut config = Config::default();
    config.socket_workers = socket_workers;
    config.swarm_workers = swarm_workers;
    // dual-stack listener: IPv4 hosts arrive as IPv4-mapped sources
    config.network.address = SocketAddr::new(IpAddr::V6(Ipv6Addr::UNSPECIFIED), port);
    config.network.only_ipv6 = false;
    config.cleaning.torrent_cleaning_interval = 1;
    config.cleaning.connection_cleaning_interval = 1;
    config.cleaning.max_connection_idle = 1_000_000;
    config.cleaning.max_peer_age = 1_000_000;
    config.cleaning.max_offer_age = 1_000_000;
    config
}

pub fn start(config: Config) -> Result<Tracker, String> {
    let exit = Arc::new(Mutex::new(None));
    let e2 = exit.clone();
    let c2 = config.clone();
    std::thread::Builder::new()
        .name("tracker-run".into())
        .spawn(move || {
            let r = aquatic_ws::run(c2);
            *e2.lock().unwrap() = Some(format!("{:?}", r.map_err(|e| format!("{:#}", e))));
        })
        .unwrap();
    let t = Tracker { port: config.network.address.port(), config, exit };
    let t0 = Instant::now();
    loop {
        if let Some(e) = t.exit.lock().unwrap().clone() {
            return Err(format!("run() returned during start-up: {}", e));
        }
        if let Ok(mut c) = WsConn::open(t.addr_v4(), None) {
            c.send_text("{\"action\":\"scrape\",\"info_hash\":\"aaaaaaaaaaaaaaaaaaaa\"}").ok();
            if c.wait_message(500).is_some() {
                std::thread::sleep(Duration::from_millis(200)); // the other socket workers bind a moment later
                LIVE_SWARM_WORKERS.fetch_add(t.config.swarm_workers, std::sync::atomic::Ordering::SeqCst);
                return Ok(t);
            }
        }
        if t0.elapsed() > Duration::from_secs(90) {
            return Err("tracker did not answer within 90 s".into());
        }
        std::thread::sleep(Duration::from_millis(20));
    }
}

impl Tracker {
    pub fn addr_v4(&self) -> SocketAddr {
        SocketAddr::new("127.0.0.1".parse().unwrap(), self.port)
    }
    pub fn addr_v6(&self) -> SocketAddr {
        SocketAddr::new(IpAddr::V6(Ipv6Addr::LOCALHOST), self.port)
    }
}

#[derive(Debug, Clone)]
pub enum Incoming {
    Text(J, String),
    NotJson(String),
    Close,
    Other(u8),
}

pub struct WsConn {
    stream: TcpStream,
    buf: Vec<u8>,
    pub log: Vec<Incoming>,
    pub closed: bool,
    pub local: SocketAddr,
    frag: Vec<u8>,
    mask_ctr: u32,
}

impl WsConn {
    pub fn open(addr: SocketAddr, bind_ip: Option<IpAddr>) -> std::io::Result<Self> {
        let domain = if addr.is_ipv4() { socket2::Domain::IPV4 } else { socket2::Domain::IPV6 };
        let s = socket2::Socket::new(domain, socket2::Type::STREAM, Some(socket2::Protocol::TCP))?;
        if let Some(ip) = bind_ip {
            s.bind(&SocketAddr::new(ip, 0).into())?;
        }
        s.set_tcp_nodelay(true)?;
        s.connect_timeout(&addr.into(), Duration::from_secs(2))?;
        let mut stream: TcpStream = s.into();
        stream.set_read_timeout(Some(Duration::from_millis(2000)))?;
        stream.write_all(b"GET / HTTP/1.1\r\nHost: tracker\r\nUpgrade: websocket\r\nConnection: Upgrade\r\nSec-WebSocket-Key: dGhlIHNhbXBsZSBub25jZQ==\r\nSec-WebSocket-Version: 13\r\n\r\n")?;
        let mut head = Vec::new();
        let mut b = [0u8; 1];
        while !head.ends_with(b"\r\n\r\n") {
            let n = stream.read(&mut b)?;
            if n == 0 || head.len() > 2048 {
                return Err(std::io::Error::other("handshake failed"));
            }
            head.push(b[0]);
        }
        if !head.starts_with(b"HTTP/1.1 101") {
            return Err(std::io::Error::other(format!("handshake status {:?}", String::from_utf8_lossy(&head[..head.len().min(30)]))));
        }
        stream.set_nonblocking(true)?;
        let local = stream.local_addr()?;
        Ok(Self { stream, buf: Vec::new(), log: Vec::new(), closed: false, local, frag: Vec::new(), mask_ctr: 0x1234_5678 })
    }

    fn send_frame(&mut self, opcode: u8, payload: &[u8]) -> std::io::Result<()> {
        let mut f = vec![0x80 | opcode];
        let n = payload.len();
        if n < 126 {
            f.push(0x80 | n as u8);
        } else if n < 65536 {
            f.push(0x80 | 126);
            f.extend_from_slice(&(n as u16).to_be_bytes());
        } else {
            f.push(0x80 | 127);
            f.extend_from_slice(&(n as u64).to_be_bytes());
        }
        self.mask_ctr = self.mask_ctr.wrapping_mul(1664525).wrapping_add(1013904223);
        let mask = self.mask_ctr.to_be_bytes();
        f.extend_from_slice(&mask);
        f.extend(payload.iter().enumerate().map(|(i, b)| b ^ mask[i % 4]));
        // blocking write on a non-blocking socket: retry on WouldBlock
        let mut off = 0;
        let t0 = Instant::now();
        while off < f.len() {
            match self.stream.write(&f[off..]) {
                Ok(n) => off += n,
                Err(e) if e.kind() == std::io::ErrorKind::WouldBlock => {
                    if t0.elapsed() > Duration::from_secs(5) {
                        return Err(e);
                    }
                    std::thread::sleep(Duration::from_millis(1));
                }
                Err(e) => return Err(e),
            }
        }
        Ok(())
    }

    pub fn send_text(&mut self, s: &str) -> std::io::Result<()> {
        self.send_frame(1, s.as_bytes())
    }
    pub fn send_binary(&mut self, b: &[u8]) -> std::io::Result<()> {
        self.send_frame(2, b)
    }
    pub fn send_close(&mut self) -> std::io::Result<()> {
        self.send_frame(8, &1000u16.to_be_bytes())
    }
    /// abrupt TCP reset
    pub fn reset(self) {
        let s = socket2::SockRef::from(&self.stream);
        let _ = s.set_linger(Some(Duration::from_secs(0)));
        drop(self.stream);
    }

    /// read whatever is available; parsed messages are appended to `log`. Returns number of new entries.
    pub fn pump(&mut self) -> usize {
        if self.closed {
            return 0;
        }
        let mut tmp = [0u8; 65536];
        loop {
            match self.stream.read(&mut tmp) {
                Ok(0) => {
                    self.closed = true;
                    break;
                }
                Ok(n) => self.buf.extend_from_slice(&tmp[..n]),
                Err(e) if e.kind() == std::io::ErrorKind::WouldBlock => break,
                Err(_) => {
                    self.closed = true;
                    break;
                }
            }
        }
        let before = self.log.len();
        loop {
            if self.buf.len() < 2 {
                break;
            }
            let fin = self.buf[0] & 0x80 != 0;
            let opcode = self.buf[0] & 0x0f;
            let masked = self.buf[1] & 0x80 != 0;
            let mut len = (self.buf[1] & 0x7f) as usize;
            let mut off = 2;
            if len == 126 {
                if self.buf.len() < 4 {
                    break;
                }
                len = u16::from_be_bytes([self.buf[2], self.buf[3]]) as usize;
                off = 4;
            } else if len == 127 {
                if self.buf.len() < 10 {
                    break;
                }
                len = u64::from_be_bytes(self.buf[2..10].try_into().unwrap()) as usize;
                off = 10;
            }
            if masked {
                off += 4;
            }
            if self.buf.len() < off + len {
                break;
            }
            let payload: Vec<u8> = self.buf[off..off + len].to_vec();
            self.buf.drain(..off + len);
            match opcode {
                0 | 1 | 2 => {
                    self.frag.extend_from_slice(&payload);
                    if fin {
                        let data = std::mem::take(&mut self.frag);
                        let text = String::from_utf8_lossy(&data).to_string();
                        match json::parse(&data) {
                            Ok(j) => self.log.push(Incoming::Text(j, text)),
                            Err(_) => self.log.push(Incoming::NotJson(text)),
                        }
                    }
                }
                8 => {
                    self.log.push(Incoming::Close);
                    self.closed = true;
                }
                9 => {
                    let _ = self.send_frame(10, &payload);
                }
                other => self.log.push(Incoming::Other(other)),
            }
        }
        self.log.len() - before
    }

    /// wait for the next message (any kind); None on timeout / close
    pub fn wait_message(&mut self, timeout_ms: u64) -> Option<Incoming> {
        let start = self.log.len();
        let t0 = Instant::now();
        loop {
            self.pump();
            if self.log.len() > start {
                return Some(self.log[start].clone());
            }
            if self.closed || t0.elapsed() > Duration::from_millis(timeout_ms) {
                return None;
            }
            std::thread::sleep(Duration::from_micros(300));
        }
    }
}

// ---------------------------------------------------------------------------------- messages

pub fn qid(id: &[u8; 20]) -> String {
    json::quote(&json::id_string(id), false)
}

#[allow(clippy::too_many_arguments)]
pub fn announce_json(hash: &[u8; 20], peer: &[u8; 20], event: Option<&str>, left: Option<u64>, offers: Option<&[([u8; 20], String)]>, answer: Option<(&[u8; 20], &[u8; 20], &str)>) -> String {
    let mut s = format!("{{\"action\":\"announce\",\"info_hash\":{},\"peer_id\":{}", qid(hash), qid(peer));
    if let Some(l) = left {
        s.push_str(&format!(",\"left\":{}", l));
    }
    if let Some(e) = event {
        s.push_str(&format!(",\"event\":\"{}\"", e));
    }
    if let Some(o) = offers {
        s.push_str(",\"numwant\":");
        s.push_str(&o.len().to_string());
        s.push_str(",\"offers\":[");
        for (k, (oid, sdp)) in o.iter().enumerate() {
            if k > 0 {
                s.push(',');
            }
            s.push_str(&format!("{{\"offer\":{{\"type\":\"offer\",\"sdp\":{}}},\"offer_id\":{}}}", json::quote(sdp, false), qid(oid)));
        }
        s.push(']');
    }
    if let Some((to, oid, sdp)) = answer {
        s.push_str(&format!(",\"answer\":{{\"type\":\"answer\",\"sdp\":{}}},\"to_peer_id\":{},\"offer_id\":{}", json::quote(sdp, false), qid(to), qid(oid)));
    }
    s.push('}');
    s
}

pub fn scrape_json(hashes: Option<&[[u8; 20]]>, single: bool) -> String {
    match hashes {
        None => "{\"action\":\"scrape\"}".to_string(),
        Some(h) if single && h.len() == 1 => format!("{{\"action\":\"scrape\",\"info_hash\":{}}}", qid(&h[0])),
        Some(h) => format!("{{\"action\":\"scrape\",\"info_hash\":[{}]}}", h.iter().map(qid).collect::<Vec<_>>().join(",")),
    }
}

/// classification of a tracker message by the independent JSON reader
#[derive(Debug, Clone, PartialEq)]
pub enum Msg {
    AnnounceReply { hash: [u8; 20], complete: u64, incomplete: u64 },
    ScrapeReply { files: Vec<([u8; 20], u64, u64)> },
    Offer { hash: [u8; 20], from_peer: [u8; 20], offer_id: [u8; 20], sdp: String },
    Answer { hash: [u8; 20], from_peer: [u8; 20], offer_id: [u8; 20], sdp: String },
    Error { reason: String, hash: Option<[u8; 20]> },
    Unknown(String),
}

pub fn classify(j: &J, raw: &str) -> Msg {
    if let Some(r) = j.get("failure reason").and_then(|x| x.str()) {
        return Msg::Error { reason: r.to_string(), hash: j.get("info_hash").and_then(|x| x.id20()) };
    }
    if let Some(files) = j.get("files").and_then(|x| x.obj()) {
        let mut v = Vec::new();
        for (k, st) in files {
            let id = J::Str(k.clone()).id20();
            match (id, st.get("complete").and_then(|x| x.u64()), st.get("incomplete").and_then(|x| x.u64())) {
                (Some(h), Some(c), Some(i)) => v.push((h, c, i)),
                _ => return Msg::Unknown(raw.to_string()),
            }
        }
        return Msg::ScrapeReply { files: v };
    }
    let hash = j.get("info_hash").and_then(|x| x.id20());
    if let (Some(h), Some(o), Some(pid), Some(oid)) = (hash, j.get("offer"), j.get("peer_id").and_then(|x| x.id20()), j.get("offer_id").and_then(|x| x.id20())) {
        return Msg::Offer { hash: h, from_peer: pid, offer_id: oid, sdp: o.get("sdp").and_then(|x| x.str()).unwrap_or("").to_string() };
    }
    if let (Some(h), Some(a), Some(pid), Some(oid)) = (hash, j.get("answer"), j.get("peer_id").and_then(|x| x.id20()), j.get("offer_id").and_then(|x| x.id20())) {
        return Msg::Answer { hash: h, from_peer: pid, offer_id: oid, sdp: a.get("sdp").and_then(|x| x.str()).unwrap_or("").to_string() };
    }
    if let (Some(h), Some(c), Some(i)) = (hash, j.get("complete").and_then(|x| x.u64()), j.get("incomplete").and_then(|x| x.u64())) {
        return Msg::AnnounceReply { hash: h, complete: c, incomplete: i };
    }
    Msg::Unknown(raw.to_string())
}

pub fn counter(name: &str) -> u64 {
    aquatic_common::verif::counter(name)
}

pub fn wait_cleans(n: u64, _swarm_workers: usize) -> bool {
    wait_all_threads("ws.clean_done", n, LIVE_SWARM_WORKERS.load(std::sync::atomic::Ordering::SeqCst), 60_000)
}

/// Wait until at least `threads` worker threads have each passed the per-thread hook `name` at least `n` times after
/// now (a global count could be produced by one busy worker while another is starved). Wall-clock bound only as a
/// watchdog: a false return is "inconclusive", never a verdict.
pub fn wait_all_threads(name: &str, n: u64, threads: usize, timeout_ms: u64) -> bool {
    let prefix = format!("{}@", name);
    let snap = || -> std::collections::BTreeMap<String, u64> { aquatic_common::verif::counters().into_iter().filter(|(k, _)| k.starts_with(&prefix)).collect() };
    let start = snap();
    vcore::net::wait_until(timeout_ms, || {
        let now = snap();
        now.iter().filter(|(k, v)| **v >= start.get(*k).copied().unwrap_or(0) + n).count() >= threads
    })
}

/// swarm worker threads alive in this process (trackers never stop once started)
pub static LIVE_SWARM_WORKERS: std::sync::atomic::AtomicUsize = std::sync::atomic::AtomicUsize::new(0);

