
pub mod live;
