//! Reference codecs (written from the specifications, sharing no code or
//! types with the aquatic protocol crates) and helpers for the codec engines.
pub use vcore::refudp;

pub fn panic_text(p: &(dyn std::any::Any + Send)) -> String {
    if let Some(s) = p.downcast_ref::<&str>() {
        s.to_string()
    } else if let Some(s) = p.downcast_ref::<String>() {
        s.clone()
    } else {
        "non-string panic".to_string()
    }
}
