//! codec_diff engine for aquatic_udp_protocol (C13): the crate's writer and
//! parser against the independent BEP 15 reference codec in vproto::refudp.

use std::num::NonZeroU16;
use std::panic::{catch_unwind, AssertUnwindSafe};

use aquatic_udp_protocol::*;
use serde_json::json;

use vcore::{Args, Report, SplitMix};
use vproto::refudp::*;

fn b_i32(r: &mut SplitMix) -> i32 {
    match r.below(10) {
        0 => 0,
        1 => 1,
        2 => -1,
        3 => i32::MIN,
        4 => i32::MAX,
        5 => i32::MIN + 1,
        6 => i32::MAX - 1,
        7 => 0x0102_0304,
        _ => r.next() as i32,
    }
}
fn b_i64(r: &mut SplitMix) -> i64 {
    match r.below(10) {
        0 => 0,
        1 => 1,
        2 => -1,
        3 => i64::MIN,
        4 => i64::MAX,
        5 => i64::MIN + 1,
        6 => i64::MAX - 1,
        7 => 0x0102_0304_0506_0708,
        _ => r.next() as i64,
    }
}
fn b_u16(r: &mut SplitMix) -> u16 {
    match r.below(8) {
        0 => 1,
        1 => u16::MAX,
        2 => 0x0102,
        3 => 255,
        4 => 256,
        _ => (r.next() as u16).max(1),
    }
}
fn b_20(r: &mut SplitMix) -> [u8; 20] {
    match r.below(6) {
        0 => [0; 20],
        1 => [0xff; 20],
        2 => {
            let mut a = [0u8; 20];
            for (i, x) in a.iter_mut().enumerate() {
                *x = i as u8 + 1;
            }
            a
        }
        _ => r.arr20(),
    }
}

fn to_event(e: i32) -> AnnounceEvent {
    match e {
        0 => AnnounceEvent::None,
        1 => AnnounceEvent::Completed,
        2 => AnnounceEvent::Started,
        _ => AnnounceEvent::Stopped,
    }
}
fn from_event(e: AnnounceEvent) -> i32 {
    match e {
        AnnounceEvent::None => 0,
        AnnounceEvent::Completed => 1,
        AnnounceEvent::Started => 2,
        AnnounceEvent::Stopped => 3,
    }
}

fn to_aq_request(r: &RefRequest) -> Request {
    match r {
        RefRequest::Connect { transaction_id } => Request::Connect(ConnectRequest { transaction_id: TransactionId::new(*transaction_id) }),
        RefRequest::Announce(a) => Request::Announce(AnnounceRequest {
            connection_id: ConnectionId::new(a.connection_id),
            action_placeholder: AnnounceActionPlaceholder::default(),
            transaction_id: TransactionId::new(a.transaction_id),
            info_hash: InfoHash(a.info_hash),
            peer_id: PeerId(a.peer_id),
            bytes_downloaded: NumberOfBytes::new(a.downloaded),
            bytes_left: NumberOfBytes::new(a.left),
            bytes_uploaded: NumberOfBytes::new(a.uploaded),
            event: to_event(a.event),
            ip_address: Ipv4AddrBytes(a.ip),
            key: PeerKey::new(a.key),
            peers_wanted: NumberOfPeers::new(a.num_want),
            port: Port::new(NonZeroU16::new(a.port).unwrap()),
        }),
        RefRequest::Scrape { connection_id, transaction_id, hashes } => Request::Scrape(ScrapeRequest {
            connection_id: ConnectionId::new(*connection_id),
            transaction_id: TransactionId::new(*transaction_id),
            info_hashes: hashes.iter().map(|h| InfoHash(*h)).collect(),
        }),
    }
}

fn from_aq_request(r: &Request) -> RefRequest {
    match r {
        Request::Connect(c) => RefRequest::Connect { transaction_id: c.transaction_id.0.get() },
        Request::Announce(a) => RefRequest::Announce(RefAnnounce {
            connection_id: a.connection_id.0.get(),
            transaction_id: a.transaction_id.0.get(),
            info_hash: a.info_hash.0,
            peer_id: a.peer_id.0,
            downloaded: a.bytes_downloaded.0.get(),
            left: a.bytes_left.0.get(),
            uploaded: a.bytes_uploaded.0.get(),
            event: from_event(a.event),
            ip: a.ip_address.0,
            key: a.key.0.get(),
            num_want: a.peers_wanted.0.get(),
            port: a.port.0.get(),
        }),
        Request::Scrape(s) => RefRequest::Scrape {
            connection_id: s.connection_id.0.get(),
            transaction_id: s.transaction_id.0.get(),
            hashes: s.info_hashes.iter().map(|h| h.0).collect(),
        },
    }
}

fn to_aq_response(r: &RefResponse) -> Response {
    match r {
        RefResponse::Connect { transaction_id, connection_id } => Response::Connect(ConnectResponse { transaction_id: TransactionId::new(*transaction_id), connection_id: ConnectionId::new(*connection_id) }),
        RefResponse::AnnounceV4 { transaction_id, interval, leechers, seeders, peers } => Response::AnnounceIpv4(AnnounceResponse {
            fixed: AnnounceResponseFixedData { transaction_id: TransactionId::new(*transaction_id), announce_interval: AnnounceInterval::new(*interval), leechers: NumberOfPeers::new(*leechers), seeders: NumberOfPeers::new(*seeders) },
            peers: peers.iter().map(|(ip, port)| ResponsePeer { ip_address: Ipv4AddrBytes(*ip), port: zerocopy_u16(*port) }).collect(),
        }),
        RefResponse::AnnounceV6 { transaction_id, interval, leechers, seeders, peers } => Response::AnnounceIpv6(AnnounceResponse {
            fixed: AnnounceResponseFixedData { transaction_id: TransactionId::new(*transaction_id), announce_interval: AnnounceInterval::new(*interval), leechers: NumberOfPeers::new(*leechers), seeders: NumberOfPeers::new(*seeders) },
            peers: peers.iter().map(|(ip, port)| ResponsePeer { ip_address: Ipv6AddrBytes(*ip), port: zerocopy_u16(*port) }).collect(),
        }),
        RefResponse::Scrape { transaction_id, stats } => Response::Scrape(ScrapeResponse {
            transaction_id: TransactionId::new(*transaction_id),
            torrent_stats: stats.iter().map(|(s, c, l)| TorrentScrapeStatistics { seeders: NumberOfPeers::new(*s), completed: NumberOfDownloads::new(*c), leechers: NumberOfPeers::new(*l) }).collect(),
        }),
        RefResponse::Error { transaction_id, message } => Response::Error(ErrorResponse { transaction_id: TransactionId::new(*transaction_id), message: String::from_utf8(message.clone()).unwrap().into() }),
    }
}

fn zerocopy_u16(v: u16) -> Port {
    Port::new(NonZeroU16::new(v).expect("generator yields ports >= 1"))
}

fn from_aq_response(r: &Response) -> RefResponse {
    match r {
        Response::Connect(c) => RefResponse::Connect { transaction_id: c.transaction_id.0.get(), connection_id: c.connection_id.0.get() },
        Response::AnnounceIpv4(a) => RefResponse::AnnounceV4 {
            transaction_id: a.fixed.transaction_id.0.get(),
            interval: a.fixed.announce_interval.0.get(),
            leechers: a.fixed.leechers.0.get(),
            seeders: a.fixed.seeders.0.get(),
            peers: a.peers.iter().map(|p| (p.ip_address.0, p.port.0.get())).collect(),
        },
        Response::AnnounceIpv6(a) => RefResponse::AnnounceV6 {
            transaction_id: a.fixed.transaction_id.0.get(),
            interval: a.fixed.announce_interval.0.get(),
            leechers: a.fixed.leechers.0.get(),
            seeders: a.fixed.seeders.0.get(),
            peers: a.peers.iter().map(|p| (p.ip_address.0, p.port.0.get())).collect(),
        },
        Response::Scrape(s) => RefResponse::Scrape { transaction_id: s.transaction_id.0.get(), stats: s.torrent_stats.iter().map(|t| (t.seeders.0.get(), t.completed.0.get(), t.leechers.0.get())).collect() },
        Response::Error(e) => RefResponse::Error { transaction_id: e.transaction_id.0.get(), message: e.message.as_bytes().to_vec() },
    }
}


fn gen_request(r: &mut SplitMix) -> RefRequest {
    match r.below(10) {
        0 | 1 => RefRequest::Connect { transaction_id: b_i32(r) },
        2..=6 => RefRequest::Announce(RefAnnounce {
            connection_id: b_i64(r),
            transaction_id: b_i32(r),
            info_hash: b_20(r),
            peer_id: b_20(r),
            downloaded: b_i64(r),
            left: b_i64(r),
            uploaded: b_i64(r),
            event: r.below(4) as i32,
            ip: (r.next() as u32).to_be_bytes(),
            key: b_i32(r),
            num_want: b_i32(r),
            port: b_u16(r),
        }),
        _ => {
            let n = match r.below(6) {
                0 => 1,
                1 => 255,
                2 => 74,
                _ => 1 + r.usize(255),
            };
            RefRequest::Scrape { connection_id: b_i64(r), transaction_id: b_i32(r), hashes: (0..n).map(|_| b_20(r)).collect() }
        }
    }
}

fn gen_response(r: &mut SplitMix) -> RefResponse {
    let n = match r.below(8) {
        0 => 0,
        1 => 1,
        2 => 300,
        _ => r.usize(60),
    };
    match r.below(5) {
        0 => RefResponse::Connect { transaction_id: b_i32(r), connection_id: b_i64(r) },
        1 => RefResponse::AnnounceV4 { transaction_id: b_i32(r), interval: b_i32(r), leechers: b_i32(r), seeders: b_i32(r), peers: (0..n).map(|_| ((r.next() as u32).to_be_bytes(), b_u16(r))).collect() },
        2 => RefResponse::AnnounceV6 { transaction_id: b_i32(r), interval: b_i32(r), leechers: b_i32(r), seeders: b_i32(r), peers: (0..n).map(|_| ((r.next() as u128).wrapping_mul(0x1_0000_0001_0000_0001u128).to_be_bytes(), b_u16(r))).collect() },
        3 => RefResponse::Scrape { transaction_id: b_i32(r), stats: (0..n).map(|_| (b_i32(r), b_i32(r), b_i32(r))).collect() },
        _ => {
            let len = r.usize(40);
            let msg: String = (0..len).map(|_| *r.pick(&['a', 'Z', ' ', '0', 'é', '𝕊', '\n', '"'])).collect();
            RefResponse::Error { transaction_id: b_i32(r), message: msg.into_bytes() }
        }
    }
}

fn kind_of(r: &RefRequest) -> u8 {
    match r {
        RefRequest::Connect { .. } => 0,
        RefRequest::Announce(a) => 1 + a.event as u8,
        RefRequest::Scrape { .. } => 5,
    }
}

fn check_request(report: &mut Report, req: &RefRequest, ext: usize, max_scrape: u8, r: &mut SplitMix) {
    let fail = |report: &mut Report, sig: &str, detail: String, bytes: &[u8]| {
        report.violation(sig, "codec", detail, json!({"engine":"codec_udp","kind":"request","bytes":vcore::hex(bytes),"max_scrape":max_scrape}));
    };
    let reference = encode_request(req);
    let aq = to_aq_request(req);
    let mut written = Vec::new();
    aq.write_bytes(&mut written).unwrap();
    report.eval();
    if written != reference {
        fail(report, "udp.codec.request.write_layout", format!("write_bytes differs from BEP 15 layout for {:?}", req), &written);
        return;
    }
    // conforming datagram (+ extension bytes after an announce) parses to the intended value
    let mut dgram = reference.clone();
    if let RefRequest::Announce(_) = req {
        for _ in 0..ext {
            dgram.push(r.next() as u8);
        }
    }
    let want = decode_request(&dgram, max_scrape as usize).expect("reference accepts its own encoding");
    report.eval();
    match catch_unwind(AssertUnwindSafe(|| Request::parse_bytes(&dgram, max_scrape))) {
        Err(p) => fail(report, "udp.codec.request.parse_panic", format!("parse_bytes panicked: {}", vproto::panic_text(&*p)), &dgram),
        Ok(Err(e)) => fail(report, "udp.codec.request.conforming_rejected", format!("conforming datagram rejected: {:?}", e), &dgram),
        Ok(Ok(got)) => {
            let got = from_aq_request(&got);
            if got != want {
                fail(report, "udp.codec.request.field_values", format!("parsed {:?} expected {:?}", got, want), &dgram);
            }
        }
    }
    report.nontrivial(vcore::fnv(&[kind_of(req), (ext > 0) as u8, (max_scrape as usize).min(3) as u8, match req { RefRequest::Scrape { hashes, .. } => (hashes.len() > max_scrape as usize) as u8 + 2 * (hashes.len() == max_scrape as usize) as u8, _ => 0 }]));
}

fn check_reject(report: &mut Report, dgram: &[u8], max_scrape: u8, class: &str) {
    report.eval();
    let reference = decode_request(dgram, max_scrape as usize);
    let got = catch_unwind(AssertUnwindSafe(|| Request::parse_bytes(dgram, max_scrape)));
    let fail = |report: &mut Report, sig: &str, detail: String| {
        report.violation(sig, "codec", detail, json!({"engine":"codec_udp","kind":"reject","bytes":vcore::hex(dgram),"max_scrape":max_scrape,"class":class}));
    };
    match (reference, got) {
        (_, Err(p)) => fail(report, "udp.codec.request.parse_panic", format!("parse_bytes panicked on {} input: {}", class, vproto::panic_text(&*p))),
        (Err(rej), Ok(Ok(v))) => fail(report, &format!("udp.codec.request.accepted_{}", class), format!("datagram the reference rejects ({:?}) was accepted as {:?}", rej, v)),
        (Err(rej), Ok(Err(e))) => {
            // answerable rejections must carry the request's own ids
            let ids = match rej {
                RefReject::PortZero { connection_id, transaction_id } | RefReject::EmptyHashList { connection_id, transaction_id } | RefReject::RaggedHashList { connection_id, transaction_id } => Some((connection_id, transaction_id)),
                _ => None,
            };
            if let RequestParseError::Sendable { connection_id, transaction_id, .. } = e {
                if let Some((c, t)) = ids {
                    if connection_id.0.get() != c || transaction_id.0.get() != t {
                        fail(report, "udp.codec.request.sendable_ids", "answerable rejection carries wrong connection / transaction id".into());
                    }
                } else if dgram.len() >= 16 {
                    // any answerable error must still echo the ids found at the BEP 15 offsets
                    let c = i64::from_be_bytes(dgram[0..8].try_into().unwrap());
                    let t = i32::from_be_bytes(dgram[12..16].try_into().unwrap());
                    if connection_id.0.get() != c || transaction_id.0.get() != t {
                        fail(report, "udp.codec.request.sendable_ids", "answerable rejection carries wrong connection / transaction id".into());
                    }
                }
            }
            report.nontrivial(vcore::fnv(class.as_bytes()));
        }
        (Ok(want), Ok(Ok(v))) => {
            if from_aq_request(&v) != want {
                fail(report, "udp.codec.request.field_values", format!("parsed {:?} expected {:?}", v, want));
            }
        }
        (Ok(want), Ok(Err(e))) => fail(report, "udp.codec.request.conforming_rejected", format!("datagram the reference accepts as {:?} rejected: {:?}", want, e)),
    }
}

fn check_response(report: &mut Report, resp: &RefResponse) {
    let reference = encode_response(resp);
    let ipv4 = !matches!(resp, RefResponse::AnnounceV6 { .. });
    let fail = |report: &mut Report, sig: &str, detail: String, bytes: &[u8]| {
        report.violation(sig, "codec", detail, json!({"engine":"codec_udp","kind":"response","bytes":vcore::hex(bytes),"ipv4":ipv4}));
    };
    let aq = to_aq_response(resp);
    let mut written = Vec::new();
    aq.write_bytes(&mut written).unwrap();
    report.eval();
    if written != reference {
        fail(report, "udp.codec.response.write_layout", format!("write_bytes differs from BEP 15 layout for {:?}", resp), &written);
        return;
    }
    report.eval();
    match catch_unwind(AssertUnwindSafe(|| Response::parse_bytes(&reference, ipv4))) {
        Err(p) => fail(report, "udp.codec.response.parse_panic", format!("Response::parse_bytes panicked: {}", vproto::panic_text(&*p)), &reference),
        Ok(Err(e)) => fail(report, "udp.codec.response.conforming_rejected", format!("conforming reply rejected: {:?}", e), &reference),
        Ok(Ok(got)) => {
            if from_aq_response(&got) != *resp {
                fail(report, "udp.codec.response.field_values", format!("parsed {:?} expected {:?}", got, resp), &reference);
            }
            // and the independent decoder agrees with what the crate wrote
            if decode_response(&written, ipv4).as_ref() != Some(resp) {
                fail(report, "udp.codec.response.reference_decode", "reference decoder disagrees with written bytes".into(), &written);
            }
        }
    }
    let k = match resp {
        RefResponse::Connect { .. } => 10u8,
        RefResponse::AnnounceV4 { peers, .. } => 11 + 8 * (peers.len().min(2) as u8),
        RefResponse::AnnounceV6 { peers, .. } => 12 + 8 * (peers.len().min(2) as u8),
        RefResponse::Scrape { stats, .. } => 13 + 8 * (stats.len().min(2) as u8),
        RefResponse::Error { message, .. } => 14 + 8 * (message.len().min(2) as u8),
    };
    report.nontrivial(vcore::fnv(&[k]));
}

fn main() {
    let args = Args::parse();
    vcore::quiet_panics();
    let mut report = Report::new(
        "codec_udp",
        "aquatic_udp_protocol vs independent BEP 15 reference codec: write==reference bytes, parse(reference bytes)==value (requests with 0..64 extension bytes, replies of both families), rejection table (every truncation, unknown action/event, protocol id, port 0, empty/ragged hash list), scrape cut for every limit x count; \
         distinct = (message kind/event, extension present, scrape-vs-limit class, peers 0/1/many) and rejection classes",
    );
    if let Some(path) = args.get("replay") {
        let v: serde_json::Value = serde_json::from_str(&std::fs::read_to_string(path).unwrap()).unwrap();
        let bytes = vcore::unhex(v["bytes"].as_str().unwrap());
        match v["kind"].as_str().unwrap() {
            "response" => {
                let ipv4 = v["ipv4"].as_bool().unwrap();
                match decode_response(&bytes, ipv4) {
                    Some(r) => check_response(&mut report, &r),
                    None => println!("replay: reference cannot decode the recorded reply bytes"),
                }
            }
            _ => check_reject(&mut report, &bytes, v["max_scrape"].as_u64().unwrap() as u8, "replay"),
        }
        for v in report.violations.values() {
            println!("replay: {}: {}", v.0.signature, v.0.detail);
        }
        report.finish(&args.out());
    }
    let mut r = SplitMix::new(args.seed()).fork(0xC13 + args.u64("shard", 0) * 104729);
    let n = args.u64("messages", 300_000);
    let budget_s = args.u64("budget_s", 20);

    // systematic part: scrape cut for every limit x count
    if args.u64("shard", 0) == 0 {
        for limit in 0..=255u16 {
            for count in (1..=255usize).step_by(if args.thorough() { 1 } else { 3 }) {
                let req = RefRequest::Scrape { connection_id: 7, transaction_id: 9, hashes: (0..count).map(|i| { let mut h = [0u8; 20]; h[0] = i as u8; h[19] = limit as u8; h }).collect() };
                let dgram = encode_request(&req);
                check_reject(&mut report, &dgram, limit as u8, "scrape_cut");
            }
        }
        report.count("scrape_cut_grid_done");
    }
    let mut i = 0u64;
    while i < n && report.started.elapsed().as_secs() < budget_s && report.num_violations() < 10 {
        i += 1;
        let max_scrape = *r.pick(&[0u8, 1, 2, 70, 74, 254, 255]);
        let req = gen_request(&mut r);
        let ext = if r.chance(1, 2) { r.usize(65) } else { 0 };
        check_request(&mut report, &req, ext, max_scrape, &mut r);
        let base = encode_request(&req);
        // rejection table on mutations of the valid message
        match r.below(8) {
            0 => {
                // every truncation length
                for len in 0..base.len().min(120) {
                    check_reject(&mut report, &base[..len], max_scrape, "truncated");
                }
            }
            1 => {
                let mut d = base.clone();
                let a = match r.below(4) { 0 => 3i32, 1 => 4, 2 => -1, _ => b_i32(&mut r) };
                if d.len() >= 12 {
                    d[8..12].copy_from_slice(&a.to_be_bytes());
                    check_reject(&mut report, &d, max_scrape, "action");
                }
            }
            2 => {
                if let RefRequest::Announce(_) = req {
                    let mut d = base.clone();
                    let e = match r.below(4) { 0 => 4i32, 1 => -1, 2 => 0x0100_0000, _ => b_i32(&mut r) };
                    d[80..84].copy_from_slice(&e.to_be_bytes());
                    check_reject(&mut report, &d, max_scrape, "event");
                }
            }
            3 => {
                if let RefRequest::Connect { .. } = req {
                    let mut d = base.clone();
                    let bit = r.usize(64);
                    d[bit / 8] ^= 1 << (bit % 8);
                    check_reject(&mut report, &d, max_scrape, "protocol_id");
                }
            }
            4 => {
                if let RefRequest::Announce(_) = req {
                    let mut d = base.clone();
                    d[96] = 0;
                    d[97] = 0;
                    check_reject(&mut report, &d, max_scrape, "port_zero");
                }
            }
            5 => {
                if let RefRequest::Scrape { .. } = req {
                    check_reject(&mut report, &base[..16], max_scrape, "empty_hash_list");
                    let cut = 17 + r.usize(base.len() - 16);
                    check_reject(&mut report, &base[..cut.min(base.len())], max_scrape, "ragged_hash_list");
                    let mut d = base.clone();
                    for _ in 0..(1 + r.usize(19)) {
                        d.push(r.next() as u8);
                    }
                    check_reject(&mut report, &d, max_scrape, "ragged_hash_list");
                }
            }
            6 => {
                let mut d = base.clone();
                let bit = r.usize(d.len() * 8);
                d[bit / 8] ^= 1 << (bit % 8);
                check_reject(&mut report, &d, max_scrape, "bitflip");
            }
            _ => {
                let len = r.usize(130);
                let d = r.vec(len);
                check_reject(&mut report, &d, max_scrape, "random");
            }
        }
        let resp = gen_response(&mut r);
        check_response(&mut report, &resp);
        if report.samples.len() < 3 {
            report.sample(json!({"request": format!("{:?}", req), "bytes": vcore::hex(&base[..base.len().min(120)]), "extension_bytes": ext, "max_scrape_torrents": max_scrape}));
        }
    }
    report.add("messages", i);
    report.finish(&args.out());
}
