//! crash_shards engine (C12): every parser entry point is fed valid messages,
//! structure-aware mutations and random bytes inside sharded child processes.
//! The child runs each call under catch_unwind on a 2 MiB stack (the trackers'
//! worker stack size), brackets it with a counting allocator and appends the
//! case index to a write-ahead file first, so that an abort (stack overflow,
//! allocation failure) is attributed to the exact input by the parent.

use std::io::{Seek, SeekFrom, Write};
use std::net::{Ipv4Addr, Ipv6Addr};
use std::panic::{catch_unwind, AssertUnwindSafe};
use std::process::Command;

use serde_json::json;
use tungstenite::Message;

use vcore::alloc;
use vcore::{Args, Report, SplitMix};

#[global_allocator]
static GLOBAL: alloc::Counting = alloc::Counting;

const ENTRIES: &[&str] = &[
    "udp_request",
    "udp_response",
    "http_request_bytes",
    "http_get_path",
    "http_response",
    "http_parse_request",
    "ws_in_text",
    "ws_in_binary",
    "ws_out",
    "peer_id_client",
    "access_list_file",
];

fn max_len(entry: &str) -> usize {
    match entry {
        "udp_request" | "udp_response" => 8192,
        "http_request_bytes" | "http_get_path" | "http_parse_request" => 2048,
        "http_response" => 65536,
        "ws_in_text" | "ws_in_binary" | "ws_out" => 65536,
        "peer_id_client" => 20,
        _ => 4096,
    }
}

// ---------------------------------------------------------------- corpus

fn id_str(r: &mut SplitMix) -> String {
    vcore::json::quote(&vcore::json::id_string(&r.arr20()), r.chance(1, 2))
}

fn valid_case(entry: &str, r: &mut SplitMix) -> Vec<u8> {
    match entry {
        "udp_request" => {
            use vproto::refudp::*;
            let req = match r.below(3) {
                0 => RefRequest::Connect { transaction_id: r.next() as i32 },
                1 => RefRequest::Announce(RefAnnounce { connection_id: r.next() as i64, transaction_id: 1, info_hash: r.arr20(), peer_id: r.arr20(), downloaded: 0, left: *r.pick(&[0, -1, i64::MIN, i64::MAX]), uploaded: 0, event: r.below(4) as i32, ip: [0; 4], key: 0, num_want: *r.pick(&[i32::MIN, -1, 0, 1, i32::MAX]), port: 1 + r.below(65535) as u16 }),
                _ => RefRequest::Scrape { connection_id: 1, transaction_id: 2, hashes: (0..(1 + r.usize(80))).map(|_| r.arr20()).collect() },
            };
            encode_request(&req)
        }
        "udp_response" => {
            use vproto::refudp::*;
            let n = r.usize(50);
            let resp = match r.below(5) {
                0 => RefResponse::Connect { transaction_id: 1, connection_id: 2 },
                1 => RefResponse::AnnounceV4 { transaction_id: 1, interval: 2, leechers: 3, seeders: 4, peers: (0..n).map(|_| ([1, 2, 3, 4], 5)).collect() },
                2 => RefResponse::AnnounceV6 { transaction_id: 1, interval: 2, leechers: 3, seeders: 4, peers: (0..n).map(|_| ([7; 16], 5)).collect() },
                3 => RefResponse::Scrape { transaction_id: 1, stats: (0..n).map(|_| (1, 2, 3)).collect() },
                _ => RefResponse::Error { transaction_id: 1, message: b"some error".to_vec() },
            };
            encode_response(&resp)
        }
        "http_request_bytes" | "http_get_path" | "http_parse_request" => {
            let mut path = String::new();
            if r.chance(3, 4) {
                path.push_str("/announce?info_hash=");
                for b in r.arr20() {
                    path.push_str(&format!("%{:02x}", b));
                }
                path.push_str("&peer_id=-TR3000-abcdefghijkl&port=6881&uploaded=0&downloaded=0&left=");
                path.push_str(&format!("{}", r.next() >> r.below(64)));
                path.push_str(*r.pick(&["", "&event=started", "&event=stopped", "&event=completed", "&event=empty"]));
                path.push_str(*r.pick(&["", "&numwant=0", "&numwant=50", "&numwant=18446744073709551615", "&key=abcd1234", "&compact=1"]));
            } else {
                path.push_str("/scrape?");
                for k in 0..(1 + r.usize(20)) {
                    if k > 0 {
                        path.push('&');
                    }
                    path.push_str("info_hash=");
                    for b in r.arr20() {
                        path.push_str(&format!("%{:02X}", b));
                    }
                }
            }
            if entry == "http_get_path" {
                path.into_bytes()
            } else {
                let mut s = format!("GET {} HTTP/1.1\r\nHost: example.com\r\n", path);
                if entry == "http_parse_request" {
                    s.push_str(*r.pick(&["X-Forwarded-For: 1.2.3.4\r\n", "X-Forwarded-For: 1.2.3.4, 5.6.7.8 ,  ::1\r\n", "x-forwarded-for: 9.9.9.9\r\nX-Forwarded-For: fd00::1\r\n"]));
                }
                s.push_str("\r\n");
                s.into_bytes()
            }
        }
        "http_response" => {
            use vcore::bencode::{to_vec, B};
            let (n4, n6) = (6 * r.usize(30), 18 * r.usize(30));
            match r.below(3) {
                0 => to_vec(&B::Dict(vec![
                    (b"interval".to_vec(), B::Int(120)),
                    (b"complete".to_vec(), B::Int(r.below(100) as i128)),
                    (b"incomplete".to_vec(), B::Int(r.below(100) as i128)),
                    (b"peers".to_vec(), B::Bytes(r.vec(n4))),
                    (b"peers6".to_vec(), B::Bytes(r.vec(n6))),
                ])),
                1 => to_vec(&B::Dict(vec![(
                    b"files".to_vec(),
                    B::Dict((0..r.usize(20)).map(|_| (r.arr20().to_vec(), B::Dict(vec![(b"complete".to_vec(), B::Int(1)), (b"downloaded".to_vec(), B::Int(0)), (b"incomplete".to_vec(), B::Int(2))]))).collect()),
                )])),
                _ => to_vec(&B::Dict(vec![(b"failure reason".to_vec(), B::Bytes(b"nope".to_vec()))])),
            }
        }
        "ws_in_text" | "ws_in_binary" => {
            if r.chance(3, 4) {
                let mut s = format!("{{\"action\":\"announce\",\"info_hash\":{},\"peer_id\":{},\"left\":{}", id_str(r), id_str(r), r.below(3));
                if r.chance(1, 2) {
                    s.push_str(",\"offers\":[");
                    for k in 0..r.usize(5) {
                        if k > 0 {
                            s.push(',');
                        }
                        s.push_str(&format!("{{\"offer\":{{\"type\":\"offer\",\"sdp\":\"v=0 {}\"}},\"offer_id\":{}}}", r.next(), id_str(r)));
                    }
                    s.push_str("],\"numwant\":5");
                }
                if r.chance(1, 3) {
                    s.push_str(&format!(",\"answer\":{{\"type\":\"answer\",\"sdp\":\"x\"}},\"to_peer_id\":{},\"offer_id\":{}", id_str(r), id_str(r)));
                }
                s.push_str(*r.pick(&["", ",\"event\":\"started\"", ",\"event\":\"stopped\"", ",\"event\":\"completed\"", ",\"event\":\"update\""]));
                s.push('}');
                s.into_bytes()
            } else {
                let hashes: Vec<String> = (0..r.usize(6)).map(|_| id_str(r)).collect();
                format!("{{\"action\":\"scrape\",\"info_hash\":[{}]}}", hashes.join(",")).into_bytes()
            }
        }
        "ws_out" => match r.below(3) {
            0 => format!("{{\"action\":\"announce\",\"info_hash\":{},\"complete\":1,\"incomplete\":2,\"interval\":120}}", id_str(r)).into_bytes(),
            1 => format!("{{\"action\":\"scrape\",\"files\":{{{}:{{\"complete\":1,\"incomplete\":0,\"downloaded\":0}}}}}}", id_str(r)).into_bytes(),
            _ => format!("{{\"action\":\"announce\",\"peer_id\":{},\"info_hash\":{},\"offer\":{{\"type\":\"offer\",\"sdp\":\"abc\"}},\"offer_id\":{}}}", id_str(r), id_str(r), id_str(r)).into_bytes(),
        },
        "peer_id_client" => {
            let mut id = r.arr20();
            if r.chance(3, 4) {
                let prefixes: [&[u8]; 8] = [b"-TR3000-", b"-qB4250-", b"-UT355S-", b"-AZ5750-", b"-WW0102-", b"-lt0D80-", b"M7-10-5-", b"-DE13F0-"];
                let p = *r.pick(&prefixes);
                id[..p.len()].copy_from_slice(p);
            }
            id.to_vec()
        }
        _ => {
            // access list file
            let mut s = String::new();
            for _ in 0..r.usize(20) {
                let h = vcore::hex(&r.arr20());
                s.push_str(&match r.below(5) {
                    0 => h.to_uppercase(),
                    1 => format!("  {}  ", h),
                    2 => String::new(),
                    _ => h,
                });
                s.push_str(*r.pick(&["\n", "\r\n", "\n\n"]));
            }
            s.into_bytes()
        }
    }
}

fn mutate(entry: &str, base: Vec<u8>, r: &mut SplitMix) -> Vec<u8> {
    let cap = max_len(entry);
    let mut b = base;
    match r.below(12) {
        0 => {}
        1 => {
            let n = r.usize(b.len() + 1);
            b.truncate(n);
        }
        2 => {
            let extra = r.usize(300);
            let fill = r.next() as u8;
            for _ in 0..extra {
                b.push(if r.chance(1, 2) { fill } else { r.next() as u8 });
            }
        }
        3 | 4 => {
            if !b.is_empty() {
                for _ in 0..(1 + r.usize(4)) {
                    let bit = r.usize(b.len() * 8);
                    b[bit / 8] ^= 1 << (bit % 8);
                }
            }
        }
        5 => {
            // splice a hostile token somewhere
            let tokens: [&[u8]; 22] = [b"=", b"&", b"%", b"%%", b"%f", b"?", b"&&==", b"\0", b"\xff\xfe", b"\xf0\x9f\x98\x80", b"\"", b"\\", b"\\u", b"\\ud800", b"[", b"{", b":", b",", b"null", b"-0", b"99999999999999999999999999", b"1e999"];
            let t = *r.pick(&tokens);
            let pos = r.usize(b.len() + 1);
            for (k, x) in t.iter().enumerate() {
                b.insert(pos + k, *x);
            }
        }
        6 => {
            // nesting bomb within the size limit
            let depth = *r.pick(&[10usize, 100, 1000, 5000, 10_000, 30_000]);
            let depth = depth.min(cap / 2);
            let (open, close): (&[u8], &[u8]) = match entry {
                "http_response" => *r.pick(&[(b"l".as_slice(), b"e".as_slice()), (b"d1:a".as_slice(), b"e".as_slice())]),
                _ => *r.pick(&[(b"[".as_slice(), b"]".as_slice()), (b"{\"a\":".as_slice(), b"}".as_slice()), (b"{\"offers\":[".as_slice(), b"]}".as_slice())]),
            };
            let mut v = Vec::new();
            for _ in 0..depth {
                v.extend_from_slice(open);
                if v.len() + depth * close.len() + 8 > cap {
                    break;
                }
            }
            let opened = v.len() / open.len();
            if r.chance(1, 2) {
                v.extend_from_slice(if entry == "http_response" { b"i0e" } else { b"0" });
                for _ in 0..opened {
                    v.extend_from_slice(close);
                }
            }
            if entry != "http_response" && entry.starts_with("ws") && r.chance(1, 3) {
                // the bomb as an extra member of a well-formed message, AFTER a string that a hand-written
                // depth pre-scanner may mis-lex (escaped backslash before the closing quote, escaped quotes,
                // brackets inside strings, unicode escapes): everything after it would then be "inside a string"
                let tricky: [&str; 10] = ["\\\\", "a\\\\", "\\\\\\\\", "\\\"", "\\\"\\\\", "[[[[{{{{", "\\u005c", "\\u0022\\\\", "]]]]\\\\", "\\\\\\\""];
                let t = *r.pick(&tricky);
                let mut m = Vec::new();
                match r.below(3) {
                    0 => {
                        // a 20-character info hash whose last character is a backslash
                        m.extend_from_slice(b"{\"action\":\"scrape\",\"info_hash\":\"aaaaaaaaaaaaaaaaaaa\\\\\",\"x\":");
                    }
                    1 => {
                        m.extend_from_slice(b"{\"action\":\"scrape\",\"info_hash\":\"aaaaaaaaaaaaaaaaaaaa\",\"k\":\"");
                        m.extend_from_slice(t.as_bytes());
                        m.extend_from_slice(b"\",\"x\":");
                    }
                    _ => {
                        m.extend_from_slice(b"{\"k\":\"");
                        m.extend_from_slice(t.as_bytes());
                        m.extend_from_slice(b"\",\"action\":\"announce\",\"x\":");
                    }
                }
                let room = cap.saturating_sub(m.len() + 2);
                if v.len() > room {
                    // keep it balanced where possible: cut the same number of openers and closers
                    let opened_now = opened.min(room / (open.len() + close.len()).max(1));
                    v.clear();
                    for _ in 0..opened_now {
                        v.extend_from_slice(open);
                    }
                    v.extend_from_slice(b"0");
                    for _ in 0..opened_now {
                        v.extend_from_slice(close);
                    }
                }
                m.extend_from_slice(&v);
                m.extend_from_slice(b"}");
                b = m;
            } else if entry == "http_response" && r.chance(1, 3) {
                // bencode: the bomb after a byte string that contains list / dict / end markers
                let mut m = Vec::new();
                m.extend_from_slice(b"d1:k8:lldd:eee1:x");
                let room = cap.saturating_sub(m.len() + 1);
                v.truncate(room);
                m.extend_from_slice(&v);
                m.extend_from_slice(b"e");
                b = m;
            } else if r.chance(1, 2) && !b.is_empty() {
                // embed inside an otherwise valid message
                let pos = r.usize(b.len());
                let tail = b.split_off(pos);
                b.extend_from_slice(&v);
                b.extend_from_slice(&tail);
            } else {
                b = v;
            }
        }
        7 => {
            // huge claimed lengths / counts
            let claim: &[u8] = *r.pick(&[b"99999999999:".as_slice(), b"18446744073709551615:", b"4294967296:", b"i99999999999999999999e", b"9223372036854775807:"]);
            let pos = r.usize(b.len() + 1);
            for (k, x) in claim.iter().enumerate() {
                b.insert(pos + k, *x);
            }
        }
        8 => {
            // duplicate a slice of the message (duplicate keys, repeated fields)
            if b.len() > 4 {
                let s = r.usize(b.len() - 2);
                let e = s + 1 + r.usize((b.len() - s - 1).min(200));
                let piece = b[s..e].to_vec();
                let pos = r.usize(b.len());
                for (k, x) in piece.iter().enumerate() {
                    b.insert(pos + k, *x);
                }
            }
        }
        9 => {
            // over-long identifiers / keys
            let long = vec![*r.pick(&[b'a', b'%', 0xc3, b'9']); 50 + r.usize(2000)];
            let pos = r.usize(b.len() + 1);
            for (k, x) in long.iter().enumerate() {
                b.insert(pos + k, *x);
            }
        }
        10 => {
            let n = r.usize(cap.min(600));
            b = r.vec(n);
        }
        _ => {
            // fill to the buffer size
            while b.len() < cap {
                b.push(r.next() as u8);
            }
        }
    }
    b.truncate(cap);
    b
}

fn gen_case(entry: &str, seed: u64, index: u64) -> Vec<u8> {
    let mut r = SplitMix::new(seed).fork(vcore::fnv(entry.as_bytes()) ^ index.wrapping_mul(0x9E37));
    let base = valid_case(entry, &mut r);
    mutate(entry, base, &mut r)
}

// ---------------------------------------------------------------- execution

/// Returns (accepted, reached_past_first_stage)
fn run_entry(entry: &str, input: &[u8], tmp: &str) -> (bool, bool) {
    match entry {
        "udp_request" => {
            let limit = [0u8, 1, 70, 255][input.len() % 4];
            let res = aquatic_udp_protocol::Request::parse_bytes(input, limit);
            (res.is_ok(), input.len() >= 12)
        }
        "udp_response" => {
            let res = aquatic_udp_protocol::Response::parse_bytes(input, input.len() % 2 == 0);
            (res.is_ok(), input.len() >= 4)
        }
        "http_request_bytes" => {
            let res = aquatic_http_protocol::request::Request::parse_bytes(input);
            (matches!(res, Ok(Some(_))), input.starts_with(b"GET /"))
        }
        "http_get_path" => {
            let s = String::from_utf8_lossy(input);
            let res = aquatic_http_protocol::request::Request::parse_http_get_path(&s);
            (res.is_ok(), s.contains('?'))
        }
        "http_response" => {
            let res = aquatic_http_protocol::response::Response::parse_bytes(input);
            (res.is_ok(), input.first() == Some(&b'd') || input.first() == Some(&b'l'))
        }
        "http_parse_request" => {
            let mut config = aquatic_http::config::Config::default();
            // reverse-proxy mode only when a syntactically valid last header value is present (deployment precondition)
            let text = String::from_utf8_lossy(input);
            let proxy_ok = text.lines().filter(|l| l.to_ascii_lowercase().starts_with("x-forwarded-for:")).last().and_then(|l| l.split(':').nth(1).map(|v| v.split(',').last().unwrap_or("").trim().to_string())).map(|v| v.parse::<std::net::IpAddr>().is_ok()).unwrap_or(false);
            // header names are matched case-sensitively by the tracker: only the exact configured name counts
            let exact = text.lines().filter(|l| l.starts_with("X-Forwarded-For:")).last().and_then(|l| l.splitn(2, ':').nth(1).map(|v| v.split(',').last().unwrap_or("").trim().to_string())).map(|v| v.parse::<std::net::IpAddr>().is_ok()).unwrap_or(false);
            config.network.runs_behind_reverse_proxy = proxy_ok && exact && input.len() % 2 == 0;
            let res = aquatic_http::verif_api::parse_request(&config, input);
            let is_missing_header = matches!(res, Err(aquatic_http::verif_api::RequestParseError::RequiredPeerIpHeaderMissing(_)));
            // by design this error makes the connection task panic in proxy mode: outside the property (precondition)
            (res.is_ok() || is_missing_header, input.starts_with(b"GET /"))
        }
        "ws_in_text" => match String::from_utf8(input.to_vec()) {
            Ok(s) => {
                let res = aquatic_ws_protocol::incoming::InMessage::from_ws_message(Message::Text(s.into()));
                (res.is_ok(), input.first() == Some(&b'{'))
            }
            Err(_) => (false, false), // tungstenite rejects non-UTF-8 text frames before the tracker sees them
        },
        "ws_in_binary" => {
            let res = aquatic_ws_protocol::incoming::InMessage::from_ws_message(Message::Binary(input.to_vec().into()));
            (res.is_ok(), input.first() == Some(&b'{'))
        }
        "ws_out" => {
            let res = aquatic_ws_protocol::outgoing::OutMessage::from_ws_message(Message::Binary(input.to_vec().into()));
            (res.is_ok(), input.first() == Some(&b'{'))
        }
        "peer_id_client" => {
            let mut id = [0u8; 20];
            let n = input.len().min(20);
            id[..n].copy_from_slice(&input[..n]);
            let pid = aquatic_peer_id::PeerId(id);
            let c = pid.client();
            let _ = c.to_string();
            let _ = pid.first_8_bytes_hex();
            (true, !matches!(c, aquatic_peer_id::PeerClient::Other))
        }
        _ => {
            let path = std::path::PathBuf::from(format!("{}/access_list_{}.txt", tmp, std::process::id()));
            std::fs::write(&path, input).unwrap();
            let res = aquatic_common::access_list::AccessList::create_from_path(&path);
            (res.is_ok(), !input.is_empty())
        }
    }
}

fn child(args: &Args) -> ! {
    let entry = args.str("entry", "");
    let seed = args.seed();
    let from = args.u64("from", 0);
    let to = args.u64("to", 0);
    let wal_path = args.str("wal", "/dev/null");
    let res_path = args.str("childout", "/dev/null");
    let tmp = args.str("tmpdir", "/tmp");
    vcore::quiet_panics();
    let handle = std::thread::Builder::new()
        .stack_size(2 * 1024 * 1024)
        .spawn(move || {
            let mut wal = std::fs::OpenOptions::new().create(true).write(true).truncate(true).open(&wal_path).unwrap();
            let mut findings: Vec<serde_json::Value> = Vec::new();
            let mut accepted = 0u64;
            let mut deep = 0u64;
            let mut distinct: std::collections::BTreeSet<u64> = Default::default();
            let mut max_ratio_valid = 0f64;
            let mut executed = 0u64;
            let budget = std::time::Instant::now();
            let budget_s = 600;
            for index in from..to {
                if budget.elapsed().as_secs() > budget_s {
                    break;
                }
                let input = gen_case(&entry, seed, index);
                wal.seek(SeekFrom::Start(0)).unwrap();
                wal.write_all(&index.to_le_bytes()).unwrap();
                alloc::begin();
                let res = catch_unwind(AssertUnwindSafe(|| run_entry(&entry, &input, &tmp)));
                let usage = alloc::end();
                executed += 1;
                let bound = 512 * input.len() + (1 << 20);
                match res {
                    Err(p) => {
                        if findings.len() < 20 {
                            findings.push(json!({"kind":"panic","index":index,"message":vproto::panic_text(&*p),"input":vcore::hex(&input[..input.len().min(4096)]),"len":input.len()}));
                        }
                    }
                    Ok((ok, past_first)) => {
                        if ok {
                            accepted += 1;
                            let ratio = usage.peak as f64 / (input.len().max(1) as f64);
                            if ratio > max_ratio_valid && input.len() > 64 {
                                max_ratio_valid = ratio;
                            }
                        }
                        if past_first {
                            deep += 1;
                            if distinct.len() < 200_000 {
                                distinct.insert(vcore::fnv(&input));
                            }
                        }
                    }
                }
                if usage.peak > bound && findings.len() < 20 {
                    findings.push(json!({"kind":"alloc","index":index,"peak":usage.peak,"largest":usage.largest,"bound":bound,"len":input.len(),"input":vcore::hex(&input[..input.len().min(4096)])}));
                }
            }
            let out = json!({"executed":executed,"accepted":accepted,"past_first_stage":deep,"distinct_past_first_stage":distinct.len(),"findings":findings,"max_peak_bytes_per_input_byte_on_accepted_inputs":max_ratio_valid});
            std::fs::write(&res_path, serde_json::to_string(&out).unwrap()).unwrap();
        })
        .unwrap();
    let ok = handle.join().is_ok();
    unsafe { libc::_exit(if ok { 0 } else { 3 }) }
}

fn panic_signature(entry: &str, msg: &str) -> String {
    let m: String = msg.chars().filter(|c| !c.is_ascii_digit()).take(60).collect();
    format!("{}.panic:{}", entry, m.trim())
}

fn main() {
    let args = Args::parse();
    if args.flag("child") {
        child(&args);
    }
    let mut report = Report::new(
        "crash_shards",
        "parser entry points (udp request/response, http request bytes / get path / response / parse_request, ws in text+binary / out, peer id client, access list file) fed valid messages plus structure-aware mutations (truncation, extension, bit flips, hostile tokens, nesting bombs within the real size limits, huge claimed lengths, duplicated slices, over-long ids, random bytes, buffer-filling) in sharded child processes on 2 MiB stacks with a counting allocator and a write-ahead case log; \
         non-trivial = input reached past the first parse stage; distinct = hash of the input",
    );
    let tmp = args.str("tmpdir", "/verif/evidence/tmp");
    std::fs::create_dir_all(&tmp).unwrap();
    let exe = std::env::current_exe().unwrap();
    let seed = args.seed();

    if let Some(path) = args.get("replay") {
        let v: serde_json::Value = serde_json::from_str(&std::fs::read_to_string(path).unwrap()).unwrap();
        let entry = v["entry"].as_str().unwrap().to_string();
        let index = v["index"].as_u64().unwrap();
        let rseed = v["case_seed"].as_u64().unwrap();
        let wal = format!("{}/replay.wal", tmp);
        let out = format!("{}/replay.child.json", tmp);
        let status = Command::new(&exe).args(["--child", "--entry", &entry, "--seed", &rseed.to_string(), "--from", &index.to_string(), "--to", &(index + 1).to_string(), "--wal", &wal, "--childout", &out, "--tmpdir", &tmp]).status().unwrap();
        report.eval();
        println!("replay: entry {} case {} -> child status {:?}", entry, index, status);
        if !status.success() {
            report.violation(v["signature"].as_str().unwrap_or("crash"), "crash", format!("child died: {:?}", status), v.clone());
        } else if let Ok(t) = std::fs::read_to_string(&out) {
            let c: serde_json::Value = serde_json::from_str(&t).unwrap();
            for f in c["findings"].as_array().unwrap() {
                println!("replay: {}", f);
                report.violation(v["signature"].as_str().unwrap_or("finding"), "crash", f.to_string(), v.clone());
            }
        }
        report.finish(&args.out());
    }

    if let Some(dir) = args.get("dump_corpus") {
        // seed corpus for the libFuzzer targets (fuzz_step.py): the same valid + mutated cases the shards execute
        let n = args.u64("cases", 300);
        for e in ENTRIES {
            let d = format!("{}/{}", dir, e);
            std::fs::create_dir_all(&d).unwrap();
            for i in 0..n {
                std::fs::write(format!("{}/seed_{:05}", d, i), gen_case(e, seed, i)).unwrap();
            }
        }
        std::process::exit(0);
    }
    if args.flag("inproc") {
        // Interpreter mode (Miri cannot spawn processes and is about four orders of magnitude slower): the same corpus and
        // the same oracle (panic / allocation bound), executed in this process for the listed entry points. The point
        // of the run is the interpreter's own oracle: undefined behaviour or an invalid borrow anywhere below an entry point.
        vcore::quiet_panics();
        let per_entry = args.u64("cases", 40);
        let shard = args.u64("shard", 0);
        let budget_s = args.u64("budget_s", 240);
        let list = args.str("entries", "udp_request,udp_response,http_request_bytes,http_get_path,http_response,http_parse_request,peer_id_client,access_list_file");
        let case_seed = seed.wrapping_mul(1_000_003).wrapping_add(shard);
        'outer: for i in 0..per_entry {
            for e in list.split(',') {
                if report.started.elapsed().as_secs() > budget_s {
                    report.note(format!("time budget reached after {} rounds over the entry points", i));
                    break 'outer;
                }
                let input = gen_case(e, case_seed, i);
                alloc::begin();
                let res = catch_unwind(AssertUnwindSafe(|| run_entry(e, &input, &tmp)));
                let usage = alloc::end();
                report.eval();
                report.count(&format!("{}.executed", e));
                match res {
                    Err(pn) => {
                        let msg = vproto::panic_text(&*pn);
                        report.violation(&panic_signature(e, &msg), "crash", format!("panic in {}: {} (input {} bytes)", e, msg, input.len()), json!({"engine":"crash_shards","entry":e,"index":i,"case_seed":case_seed,"signature":panic_signature(e, &msg),"input":vcore::hex(&input[..input.len().min(4096)])}));
                    }
                    Ok((ok, past_first)) => {
                        if ok {
                            report.count(&format!("{}.accepted", e));
                        }
                        if past_first {
                            report.nontrivial(vcore::fnv(&input));
                        }
                    }
                }
                if usage.peak > 512 * input.len() + (1 << 20) {
                    report.violation(&format!("{}.alloc_unbounded", e), "crash", format!("peak allocation {} bytes for {} input bytes exceeds 512*len+1MiB", usage.peak, input.len()), json!({"engine":"crash_shards","entry":e,"index":i,"case_seed":case_seed,"signature":format!("{}.alloc_unbounded", e),"input":vcore::hex(&input[..input.len().min(4096)])}));
                }
            }
        }
        report.note("in-process mode: no child processes, no 2 MiB stack (aborts are the sharded mode's business)");
        report.finish(&args.out());
    }

    let per_entry = args.u64("cases", if args.thorough() { 3_000_000 } else { 120_000 });
    let chunk = args.u64("chunk", 20_000);
    // sanitizer builds: let the children's reports reach this process's log, where the driver looks for them
    let child_stderr = std::env::var("VERIF_CHILD_STDERR").is_ok();
    let only: Option<String> = args.get("entry").map(|s| s.to_string());
    let par = args.usize("par", 16);
    // work list of (entry, from, to)
    let mut work: Vec<(String, u64, u64)> = Vec::new();
    for e in ENTRIES {
        if let Some(o) = &only {
            if o != e {
                continue;
            }
        }
        let mut f = 0;
        while f < per_entry {
            work.push((e.to_string(), f, (f + chunk).min(per_entry)));
            f += chunk;
        }
    }
    let budget_s = args.u64("budget_s", if args.thorough() { 280 } else { 50 });
    let work = std::sync::Mutex::new(work);
    let results = std::sync::Mutex::new(Vec::new());
    std::thread::scope(|s| {
        for w in 0..par {
            let work = &work;
            let results = &results;
            let exe = &exe;
            let tmp = &tmp;
            let started = report.started;
            s.spawn(move || loop {
                let item = work.lock().unwrap().pop();
                let (entry, from, to) = match item {
                    Some(x) => x,
                    None => break,
                };
                if started.elapsed().as_secs() > budget_s {
                    results.lock().unwrap().push((entry, from, to, None, None, true));
                    continue;
                }
                // run the chunk; after an abort, resume behind the offending case so the rest is still executed
                let mut cursor = from;
                let mut aborts_in_chunk = 0;
                while cursor < to {
                    let wal = format!("{}/w{}_{}.wal", tmp, w, cursor);
                    let out = format!("{}/w{}_{}_{}.child.json", tmp, w, entry, cursor);
                    let _ = std::fs::remove_file(&out);
                    let _ = std::fs::remove_file(&wal);
                    let status = Command::new(exe)
                        .args(["--child", "--entry", &entry, "--seed", &seed.to_string(), "--from", &cursor.to_string(), "--to", &to.to_string(), "--wal", &wal, "--childout", &out, "--tmpdir", tmp])
                        .stdout(std::process::Stdio::null())
                        .stderr(if child_stderr { std::process::Stdio::inherit() } else { std::process::Stdio::null() })
                        .status()
                        .unwrap();
                    let child_json = std::fs::read_to_string(&out).ok().and_then(|t| serde_json::from_str::<serde_json::Value>(&t).ok());
                    let last = std::fs::read(&wal).ok().filter(|b| b.len() == 8).map(|b| u64::from_le_bytes(b.try_into().unwrap()));
                    let _ = std::fs::remove_file(&wal);
                    let _ = std::fs::remove_file(&out);
                    if status.success() {
                        results.lock().unwrap().push((entry.clone(), cursor, to, child_json, None, false));
                        break;
                    }
                    let index = last.unwrap_or(cursor);
                    results.lock().unwrap().push((entry.clone(), cursor, index + 1, None, Some((format!("{:?}", status), last)), false));
                    cursor = index + 1;
                    aborts_in_chunk += 1;
                    if aborts_in_chunk >= 8 {
                        // enough witnesses from this chunk
                        results.lock().unwrap().push((entry.clone(), cursor, to, None, None, true));
                        break;
                    }
                }
            });
        }
    });
    let mut max_ratio: f64 = 0.0;
    let mut skipped = 0;
    for (entry, from, to, child_json, crash, skip) in results.into_inner().unwrap() {
        if skip {
            skipped += 1;
            continue;
        }
        if let Some((status, last)) = crash {
            let index = last.unwrap_or(from);
            let input = gen_case(&entry, seed, index);
            let deep_nest = input.iter().filter(|b| matches!(**b, b'[' | b'{' | b'l' | b'd')).count() > 500;
            let sig = if deep_nest && entry.starts_with("ws_") {
                "ws.json.deep_nesting_stack_overflow".to_string()
            } else if deep_nest && entry == "http_response" {
                "http.bencode.deep_nesting_stack_overflow".to_string()
            } else {
                format!("{}.abort", entry)
            };
            report.violation(&sig, "crash", format!("child process died ({}) while executing case {} of entry {} ({} bytes, starts {:?})", status, index, entry, input.len(), String::from_utf8_lossy(&input[..input.len().min(40)])), json!({"engine":"crash_shards","entry":entry,"index":index,"case_seed":seed,"signature":sig,"input_prefix":vcore::hex(&input[..input.len().min(256)]),"len":input.len()}));
            report.evals(index.saturating_sub(from));
            // the rest of the chunk was not executed
            continue;
        }
        if let Some(c) = child_json {
            report.evals(c["executed"].as_u64().unwrap_or(0));
            report.add(&format!("{}.accepted", entry), c["accepted"].as_u64().unwrap_or(0));
            report.add(&format!("{}.past_first_stage", entry), c["past_first_stage"].as_u64().unwrap_or(0));
            report.distinct_extra += c["distinct_past_first_stage"].as_u64().unwrap_or(0);
            max_ratio = max_ratio.max(c["max_peak_bytes_per_input_byte_on_accepted_inputs"].as_f64().unwrap_or(0.0));
            for f in c["findings"].as_array().cloned().unwrap_or_default() {
                let idx = f["index"].as_u64().unwrap();
                if f["kind"] == "panic" {
                    let msg = f["message"].as_str().unwrap_or("");
                    report.violation(&panic_signature(&entry, msg), "crash", format!("panic in {}: {} (input {} bytes)", entry, msg, f["len"]), json!({"engine":"crash_shards","entry":entry,"index":idx,"case_seed":seed,"signature":panic_signature(&entry, msg),"input":f["input"]}));
                } else {
                    report.violation(&format!("{}.alloc_unbounded", entry), "crash", format!("peak allocation {} bytes (largest single {}) for {} input bytes exceeds 512*len+1MiB", f["peak"], f["largest"], f["len"]), json!({"engine":"crash_shards","entry":entry,"index":idx,"case_seed":seed,"signature":format!("{}.alloc_unbounded", entry),"input":f["input"]}));
                }
            }
        } else {
            report.inconclusive(format!("child for {} [{}..{}) produced no result", entry, from, to));
        }
    }
    report.add("chunks_skipped_time_budget", skipped);
    report.extra.insert("max_peak_bytes_per_input_byte_on_accepted_inputs".into(), json!(max_ratio));
    for e in ENTRIES {
        let mut r = SplitMix::new(seed).fork(7);
        if report.samples.len() < 3 && (*e == "ws_in_text" || *e == "http_request_bytes" || *e == "udp_request") {
            let c = gen_case(e, seed, r.below(1000));
            report.sample(json!({"entry": e, "input_prefix": String::from_utf8_lossy(&c[..c.len().min(160)]), "len": c.len()}));
        }
    }
    report.note("reverse-proxy mode of http parse_request is exercised only with a syntactically valid last X-Forwarded-For value (deployment precondition; the tracker panics by design otherwise)");
    let _ = Ipv4Addr::LOCALHOST;
    let _ = Ipv6Addr::LOCALHOST;
    report.finish(&args.out());
}
