//! codec_diff engine for aquatic_ws_protocol (C15): JSON round trips for text
//! and binary frames, hand-built JSON for null / missing variants, emitted
//! text inspected with an independent JSON reader, identifier decoding
//! accepted iff exactly 20 characters <= U+00FF.

use std::panic::{catch_unwind, AssertUnwindSafe};

use aquatic_ws_protocol::common::*;
use aquatic_ws_protocol::incoming::*;
use aquatic_ws_protocol::outgoing::*;
use serde_json::json;
use tungstenite::Message;

use vcore::json::{self as vjson, J};
use vcore::{Args, Report, SplitMix};

/// Identifiers whose bytes are JSON structure / escape characters: payload that *looks like* structure to anything that
/// scans the text without parsing it (the nesting guard in front of the deserialiser; seeded C15c desynchronised it with a
/// string ending in an escaped backslash and then counted brackets inside later strings).
fn gen_structural_id(r: &mut SplitMix) -> [u8; 20] {
    let mut a = [0u8; 20];
    let fill: &[u8] = match r.below(5) {
        0 => b"[",
        1 => b"{",
        2 => b"[{",
        3 => b"\\",
        _ => b"\"[{]}",
    };
    for x in a.iter_mut() {
        *x = *r.pick(fill);
    }
    match r.below(4) {
        0 => a[19] = b'\\',
        1 => {
            a[18] = b'\\';
            a[19] = b'\\';
        }
        2 => {
            a[18] = b'\\';
            a[19] = b'"';
        }
        _ => {}
    }
    a
}

fn gen_structural_sdp(r: &mut SplitMix) -> String {
    let mut s = String::new();
    for _ in 0..(1 + r.usize(3)) {
        let run = 8 + r.usize(50);
        let c = *r.pick(&['[', '{', '[', '{', ']', '}', '"', '\\']);
        for _ in 0..run {
            s.push(c);
        }
        if r.chance(1, 3) {
            s.push_str("v=0 ");
        }
    }
    s.push_str(*r.pick(&["\\", "\\\\", "\\\"", "\"", "", "\\u005c", "]"]));
    s
}

fn gen_id(r: &mut SplitMix) -> [u8; 20] {
    if r.chance(1, 4) {
        return gen_structural_id(r);
    }
    match r.below(6) {
        0 => [0; 20],
        1 => [0xff; 20],
        2 => {
            let base = r.next() as u8;
            let mut a = [0u8; 20];
            for (i, x) in a.iter_mut().enumerate() {
                *x = base.wrapping_add(i as u8 * 13);
            }
            a
        }
        3 => *b"\"\\/\x08\x0c\n\r\t\x00\x1f\x7f\x80\xc2\xe2\xf0\xff'<>&",
        _ => r.arr20(),
    }
}

fn gen_sdp(r: &mut SplitMix, big: bool) -> String {
    let alphabet: Vec<char> = vec!['v', '=', '0', ' ', '\r', '\n', '"', '\\', '/', '\u{0}', '\u{1}', '\u{8}', '\u{c}', '\u{1f}', '\u{7f}', 'é', '\u{2028}', '\u{2029}', '𝕊', '😀', '\u{ffff}', '{', '}', '[', ']', ':', ','];
    if !big && r.chance(1, 4) {
        return gen_structural_sdp(r);
    }
    let len = if big { 20_000 + r.usize(20_000) } else { r.usize(60) };
    (0..len).map(|_| *r.pick(&alphabet)).collect()
}

fn gen_in(r: &mut SplitMix) -> InMessage {
    if r.chance(3, 4) {
        let offers = match r.below(4) {
            0 => None,
            1 => Some(vec![]),
            _ => Some((0..(1 + r.usize(4))).map(|_| AnnounceRequestOffer { offer: RtcOffer { t: RtcOfferType::Offer, sdp: gen_sdp(r, false) }, offer_id: OfferId(gen_id(r)) }).collect()),
        };
        let with_answer = r.chance(1, 3);
        InMessage::AnnounceRequest(AnnounceRequest {
            action: AnnounceAction::Announce,
            info_hash: InfoHash(gen_id(r)),
            peer_id: PeerId(gen_id(r)),
            bytes_left: match r.below(4) {
                0 => None,
                1 => Some(0),
                2 => Some(usize::MAX >> 12),
                _ => Some(r.next() as usize >> 20),
            },
            event: *r.pick(&[None, Some(AnnounceEvent::Started), Some(AnnounceEvent::Stopped), Some(AnnounceEvent::Completed), Some(AnnounceEvent::Update)]),
            numwant: if offers.is_some() && r.chance(1, 2) { Some(r.usize(20)) } else { None },
            offers,
            answer: if with_answer { Some(RtcAnswer { t: RtcAnswerType::Answer, sdp: gen_sdp(r, false) }) } else { None },
            answer_to_peer_id: if with_answer { Some(PeerId(gen_id(r))) } else { None },
            answer_offer_id: if with_answer { Some(OfferId(gen_id(r))) } else { None },
        })
    } else {
        InMessage::ScrapeRequest(ScrapeRequest {
            action: ScrapeAction::Scrape,
            info_hashes: match r.below(4) {
                0 => None,
                1 => Some(ScrapeRequestInfoHashes::Single(InfoHash(gen_id(r)))),
                2 => Some(ScrapeRequestInfoHashes::Multiple(vec![])),
                _ => Some(ScrapeRequestInfoHashes::Multiple((0..(1 + r.usize(5))).map(|_| InfoHash(gen_id(r))).collect())),
            },
        })
    }
}

fn gen_out(r: &mut SplitMix) -> OutMessage {
    match r.below(5) {
        0 => OutMessage::OfferOutMessage(OfferOutMessage { action: AnnounceAction::Announce, peer_id: PeerId(gen_id(r)), info_hash: InfoHash(gen_id(r)), offer: RtcOffer { t: RtcOfferType::Offer, sdp: gen_sdp(r, false) }, offer_id: OfferId(gen_id(r)) }),
        1 => OutMessage::AnswerOutMessage(AnswerOutMessage { action: AnnounceAction::Announce, peer_id: PeerId(gen_id(r)), info_hash: InfoHash(gen_id(r)), answer: RtcAnswer { t: RtcAnswerType::Answer, sdp: gen_sdp(r, false) }, offer_id: OfferId(gen_id(r)) }),
        2 => OutMessage::AnnounceResponse(AnnounceResponse { action: AnnounceAction::Announce, info_hash: InfoHash(gen_id(r)), complete: r.next() as usize >> 16, incomplete: r.usize(5), announce_interval: r.usize(1000) }),
        3 => OutMessage::ScrapeResponse(ScrapeResponse {
            action: ScrapeAction::Scrape,
            files: (0..r.usize(5)).map(|_| (InfoHash(gen_id(r)), ScrapeStatistics { complete: r.usize(9), incomplete: r.usize(9), downloaded: 0 })).collect(),
        }),
        _ => OutMessage::ErrorResponse(ErrorResponse {
            failure_reason: gen_sdp(r, false).into(),
            action: r.pick(&[None, Some(ErrorResponseAction::Announce), Some(ErrorResponseAction::Scrape)]).clone(),
            info_hash: if r.chance(1, 2) { Some(InfoHash(gen_id(r))) } else { None },
        }),
    }
}

/// every identifier in the emitted text must be a 20-character string whose code points are the bytes
fn ids_in(j: &J, out: &mut Vec<(String, J)>) {
    if let J::Obj(items) = j {
        for (k, v) in items {
            if matches!(k.as_str(), "info_hash" | "peer_id" | "offer_id" | "to_peer_id") {
                match v {
                    J::Arr(a) => a.iter().for_each(|x| out.push((k.clone(), x.clone()))),
                    J::Null => {}
                    _ => out.push((k.clone(), v.clone())),
                }
            } else if k == "files" {
                if let J::Obj(files) = v {
                    for (fk, _) in files {
                        out.push(("files-key".into(), J::Str(fk.clone())));
                    }
                }
            }
            ids_in(v, out);
        }
    } else if let J::Arr(a) = j {
        a.iter().for_each(|x| ids_in(x, out));
    }
}

fn text_of(m: &Message) -> String {
    match m {
        Message::Text(t) => t.as_str().to_string(),
        _ => panic!("library emitted a non-text frame"),
    }
}

fn main() {
    let args = Args::parse();
    vcore::quiet_panics();
    let mut report = Report::new(
        "codec_ws",
        "aquatic_ws_protocol: from_ws_message(to_ws_message(m)) == m for text and binary frames over all message kinds with optional fields present/absent/null and hostile SDP text; emitted JSON read by an independent parser (identifiers are 20 chars <= U+00FF equal to the bytes); identifier strings of length 0..40 with characters above U+00FF accepted iff exactly 20 chars <= U+00FF; \
         distinct = (check kind, message kind, optional-field pattern, identifier class)",
    );
    let mut r = SplitMix::new(args.seed()).fork(0xC15 + args.u64("shard", 0) * 104729);
    let n = args.u64("messages", 100_000);
    let budget_s = args.u64("budget_s", 25);

    let decode_id = |s: &str| -> Result<Option<[u8; 20]>, String> {
        // through the real InMessage parser, as a single-hash scrape
        let text = format!("{{\"action\":\"scrape\",\"info_hash\":{}}}", s);
        match catch_unwind(AssertUnwindSafe(|| InMessage::from_ws_message(Message::Text(text.clone().into())))) {
            Err(p) => Err(vproto::panic_text(&*p)),
            Ok(Ok(InMessage::ScrapeRequest(ScrapeRequest { info_hashes: Some(ScrapeRequestInfoHashes::Single(h)), .. }))) => Ok(Some(h.0)),
            Ok(_) => Ok(None),
        }
    };

    if let Some(path) = args.get("replay") {
        let v: serde_json::Value = serde_json::from_str(&std::fs::read_to_string(path).unwrap()).unwrap();
        report.eval();
        if let Some(lit) = v["id_literal"].as_str() {
            let want = vjson::parse(lit.as_bytes()).ok().and_then(|j| j.id20());
            let got = decode_id(lit);
            println!("replay: identifier literal {}: reference {:?} parser {:?}", lit, want.map(|x| vcore::hex(&x)), got);
            if got != Ok(want) {
                report.violation(v["signature"].as_str().unwrap_or("ws.codec.replay"), "codec", "identifier decoding differs from the reference".to_string(), v.clone());
            }
        }
        if let Some(text) = v["text"].as_str() {
            println!("replay: InMessage {:?}", InMessage::from_ws_message(Message::Text(text.to_string().into())).map_err(|e| e.to_string()));
            println!("replay: OutMessage {:?}", OutMessage::from_ws_message(Message::Text(text.to_string().into())).map_err(|e| e.to_string()));
        }
        report.finish(&args.out());
    }

    let mut i = 0u64;
    while i < n && report.started.elapsed().as_secs() < budget_s && report.num_violations() < 10 {
        i += 1;
        // ---- round trips, text and binary
        let m = gen_in(&mut r);
        let text = text_of(&m.to_ws_message());
        for binary in [false, true] {
            report.eval();
            let frame = if binary { Message::Binary(text.clone().into_bytes().into()) } else { Message::Text(text.clone().into()) };
            match catch_unwind(AssertUnwindSafe(|| InMessage::from_ws_message(frame))) {
                Err(p) => report.violation("ws.codec.in.parse_panic", "codec", format!("InMessage::from_ws_message panicked: {}", vproto::panic_text(&*p)), json!({"engine":"codec_ws","text":text})),
                Ok(Ok(back)) if back == m => {}
                Ok(other) => report.violation("ws.codec.in.roundtrip", "codec", format!("InMessage changed in round trip (binary={}): {:?}", binary, other.map_err(|e| e.to_string())), json!({"engine":"codec_ws","text":text})),
            }
        }
        let kind_in = match &m {
            InMessage::AnnounceRequest(a) => [1, a.offers.is_some() as u8 + a.offers.as_ref().map(|o| !o.is_empty() as u8).unwrap_or(0), a.answer.is_some() as u8, a.event.is_some() as u8 + 2 * a.bytes_left.is_some() as u8],
            InMessage::ScrapeRequest(s) => [2, match &s.info_hashes { None => 0, Some(ScrapeRequestInfoHashes::Single(_)) => 1, Some(ScrapeRequestInfoHashes::Multiple(v)) => 2 + !v.is_empty() as u8 }, 0, 0],
        };
        report.nontrivial(vcore::fnv(&kind_in));
        let o = gen_out(&mut r);
        let otext = text_of(&o.to_ws_message());
        for binary in [false, true] {
            report.eval();
            let frame = if binary { Message::Binary(otext.clone().into_bytes().into()) } else { Message::Text(otext.clone().into()) };
            match catch_unwind(AssertUnwindSafe(|| OutMessage::from_ws_message(frame))) {
                Err(p) => report.violation("ws.codec.out.parse_panic", "codec", format!("OutMessage::from_ws_message panicked: {}", vproto::panic_text(&*p)), json!({"engine":"codec_ws","text":otext})),
                Ok(Ok(back)) if back == o => {}
                Ok(other) => report.violation("ws.codec.out.roundtrip", "codec", format!("OutMessage changed in round trip (binary={}): {:?}", binary, other.map_err(|e| e.to_string())), json!({"engine":"codec_ws","text":otext})),
            }
        }
        let kind_out = match &o {
            OutMessage::OfferOutMessage(_) => [3, 0, 0, 0],
            OutMessage::AnswerOutMessage(_) => [4, 0, 0, 0],
            OutMessage::AnnounceResponse(_) => [5, 0, 0, 0],
            OutMessage::ScrapeResponse(s) => [6, s.files.len().min(2) as u8, 0, 0],
            OutMessage::ErrorResponse(e) => [7, e.action.is_some() as u8, e.info_hash.is_some() as u8, 0],
        };
        report.nontrivial(vcore::fnv(&kind_out));

        // ---- emitted text through the independent reader
        for t in [&text, &otext] {
            report.eval();
            match vjson::parse(t.as_bytes()) {
                Err(e) => report.violation("ws.codec.emitted_not_json", "codec", format!("independent JSON reader rejects emitted text: {}", e), json!({"engine":"codec_ws","text":t})),
                Ok(j) => {
                    let mut ids = Vec::new();
                    ids_in(&j, &mut ids);
                    for (k, v) in ids {
                        if v.id20().is_none() {
                            report.violation("ws.codec.emitted_id_not_20_chars", "codec", format!("identifier {} emitted as {:?}: not a string of 20 characters <= U+00FF", k, v), json!({"engine":"codec_ws","text":t}));
                        }
                    }
                }
            }
        }
        // identifier bytes survive: compare the info hash seen by the independent reader
        if let (InMessage::AnnounceRequest(a), Ok(j)) = (&m, vjson::parse(text.as_bytes())) {
            if j.get("info_hash").and_then(|x| x.id20()) != Some(a.info_hash.0) || j.get("peer_id").and_then(|x| x.id20()) != Some(a.peer_id.0) {
                report.violation("ws.codec.emitted_id_value", "codec", "identifier bytes differ in emitted JSON".to_string(), json!({"engine":"codec_ws","text":text}));
            }
        }

        // ---- hand-built JSON: null / missing optional fields, single / list / empty scrape
        if i % 4 == 0 {
            let ih = gen_id(&mut r);
            let pid = gen_id(&mut r);
            let esc = r.chance(1, 2);
            let q = |id: &[u8; 20]| vjson::quote(&vjson::id_string(id), esc);
            let variants: Vec<(String, InMessage)> = vec![
                (
                    format!("{{\"action\":\"announce\",\"info_hash\":{},\"peer_id\":{},\"left\":null,\"offers\":null,\"numwant\":null,\"answer\":null,\"to_peer_id\":null,\"offer_id\":null}}", q(&ih), q(&pid)),
                    InMessage::AnnounceRequest(AnnounceRequest { action: AnnounceAction::Announce, info_hash: InfoHash(ih), peer_id: PeerId(pid), bytes_left: None, event: None, offers: None, numwant: None, answer: None, answer_to_peer_id: None, answer_offer_id: None }),
                ),
                (
                    format!("{{\"peer_id\":{},\"info_hash\":{},\"action\":\"announce\"}}", q(&pid), q(&ih)),
                    InMessage::AnnounceRequest(AnnounceRequest { action: AnnounceAction::Announce, info_hash: InfoHash(ih), peer_id: PeerId(pid), bytes_left: None, event: None, offers: None, numwant: None, answer: None, answer_to_peer_id: None, answer_offer_id: None }),
                ),
                (
                    format!("{{\"action\":\"announce\",\"info_hash\":{},\"peer_id\":{},\"left\":0,\"event\":\"stopped\",\"unknown_key\":[1,{{\"a\":null}}]}}", q(&ih), q(&pid)),
                    InMessage::AnnounceRequest(AnnounceRequest { action: AnnounceAction::Announce, info_hash: InfoHash(ih), peer_id: PeerId(pid), bytes_left: Some(0), event: Some(AnnounceEvent::Stopped), offers: None, numwant: None, answer: None, answer_to_peer_id: None, answer_offer_id: None }),
                ),
                (format!("{{\"action\":\"scrape\",\"info_hash\":{}}}", q(&ih)), InMessage::ScrapeRequest(ScrapeRequest { action: ScrapeAction::Scrape, info_hashes: Some(ScrapeRequestInfoHashes::Single(InfoHash(ih))) })),
                (format!("{{\"action\":\"scrape\",\"info_hash\":[{},{}]}}", q(&ih), q(&pid)), InMessage::ScrapeRequest(ScrapeRequest { action: ScrapeAction::Scrape, info_hashes: Some(ScrapeRequestInfoHashes::Multiple(vec![InfoHash(ih), InfoHash(pid)])) })),
                (r#"{"action":"scrape","info_hash":[]}"#.to_string(), InMessage::ScrapeRequest(ScrapeRequest { action: ScrapeAction::Scrape, info_hashes: Some(ScrapeRequestInfoHashes::Multiple(vec![])) })),
                (r#"{"action":"scrape","info_hash":null}"#.to_string(), InMessage::ScrapeRequest(ScrapeRequest { action: ScrapeAction::Scrape, info_hashes: None })),
                (r#"{"action":"scrape"}"#.to_string(), InMessage::ScrapeRequest(ScrapeRequest { action: ScrapeAction::Scrape, info_hashes: None })),
            ];
            for (vi, (t, want)) in variants.into_iter().enumerate() {
                for binary in [false, true] {
                    report.eval();
                    let frame = if binary { Message::Binary(t.clone().into_bytes().into()) } else { Message::Text(t.clone().into()) };
                    match catch_unwind(AssertUnwindSafe(|| InMessage::from_ws_message(frame))) {
                        Ok(Ok(back)) if back == want => {}
                        other => report.violation("ws.codec.in.handbuilt", "codec", format!("hand-built JSON variant {} parsed to {:?}", vi, other.map(|x| x.map_err(|e| e.to_string())).map_err(|p| vproto::panic_text(&*p))), json!({"engine":"codec_ws","text":t})),
                    }
                }
                report.nontrivial(vcore::fnv(&[8, vi as u8, esc as u8]));
            }
        }

        // ---- identifier decoding: accepted iff exactly 20 characters <= U+00FF
        let class = r.below(7) as u8;
        let id = gen_id(&mut r);
        let mut chars: Vec<char> = id.iter().map(|b| *b as char).collect();
        match class {
            0 => {}
            1 => chars.truncate(r.usize(20)),
            2 => {
                for _ in 0..(1 + r.usize(20)) {
                    chars.push(*r.pick(&['a', '\u{0}', 'é', 'ÿ']));
                }
            }
            3 => {
                // one character above U+00FF at a random position, length stays 20
                let pos = r.usize(20);
                chars[pos] = *r.pick(&['Ā', '€', '\u{0141}', '\u{ffff}', '𝕊', '😀']);
            }
            4 => {
                // 19 + one astral character (2 UTF-16 units, 4 UTF-8 bytes)
                chars.truncate(19);
                let pos = r.usize(20);
                chars.insert(pos, '😀');
            }
            5 => {
                // over-long by characters above U+00FF after a valid prefix
                chars.push(*r.pick(&['Ā', '𝕊']));
            }
            _ => {
                // 21..40 plain characters
                let extra = 1 + r.usize(20);
                for k in 0..extra {
                    chars.push((b'a' + (k % 26) as u8) as char);
                }
            }
        }
        let s: String = chars.iter().collect();
        let lit = vjson::quote(&s, r.chance(1, 2));
        let want = vjson::parse(lit.as_bytes()).ok().and_then(|j| j.id20());
        report.eval();
        match decode_id(&lit) {
            Err(p) => report.violation("ws.codec.in.parse_panic", "codec", format!("identifier parse panicked: {}", p), json!({"engine":"codec_ws","id_literal":lit})),
            Ok(got) => {
                if got != want {
                    let sig = match (got, want) {
                        (Some(_), None) if s.chars().count() > 20 => "ws.id.overlong_accepted",
                        (Some(_), None) => "ws.id.accepted_not_20_single_byte_chars",
                        (None, Some(_)) => "ws.id.rejected_valid",
                        _ => "ws.id.wrong_value",
                    };
                    report.violation(sig, "codec", format!("identifier string of {} characters (class {}): reference {:?}, parser {:?}", s.chars().count(), class, want.map(|x| vcore::hex(&x)), got.map(|x| vcore::hex(&x))), json!({"engine":"codec_ws","id_literal":lit,"signature":sig}));
                }
            }
        }
        report.nontrivial(vcore::fnv(&[9, class, (s.chars().count() > 20) as u8]));

        // ---- long SDP (up to the message size limit)
        if i % 500 == 1 {
            let big = InMessage::AnnounceRequest(AnnounceRequest {
                action: AnnounceAction::Announce,
                info_hash: InfoHash(gen_id(&mut r)),
                peer_id: PeerId(gen_id(&mut r)),
                bytes_left: Some(1),
                event: None,
                offers: Some(vec![AnnounceRequestOffer { offer: RtcOffer { t: RtcOfferType::Offer, sdp: gen_sdp(&mut r, true) }, offer_id: OfferId(gen_id(&mut r)) }]),
                numwant: Some(1),
                answer: None,
                answer_to_peer_id: None,
                answer_offer_id: None,
            });
            let t = text_of(&big.to_ws_message());
            report.eval();
            match catch_unwind(AssertUnwindSafe(|| InMessage::from_ws_message(Message::Text(t.clone().into())))) {
                Ok(Ok(back)) if back == big => {}
                other => report.violation("ws.codec.in.roundtrip", "codec", format!("large message changed in round trip: {:?}", other.map(|x| x.map(|_| "different value").map_err(|e| e.to_string())).map_err(|p| vproto::panic_text(&*p))), json!({"engine":"codec_ws","text_len":t.len()})),
            }
            report.nontrivial(vcore::fnv(&[10]));
        }
        if report.samples.len() < 3 {
            report.sample(json!({"in_message_text": text.chars().take(300).collect::<String>(), "out_message_text": otext.chars().take(200).collect::<String>(), "identifier_literal": lit, "identifier_class": class}));
        }
    }
    report.add("iterations", i);
    report.finish(&args.out());
}
