//! C11 engine, API level: `update_access_list` on a shared ArcSwap with live
//! caches held by "workers", driven through sequences of list files (valid,
//! malformed at every position, missing, directory, non-UTF-8), against the
//! reference list semantics: trim, skip blank, 40 hex digits any case; any
//! other line fails the whole load; a failed load leaves the previous list in force.

use std::collections::BTreeSet;
use std::path::PathBuf;
use std::sync::Arc;

use aquatic_common::access_list::{create_access_list_cache, update_access_list, AccessListArcSwap, AccessListConfig, AccessListMode, AccessListQuery};
use serde_json::json;

use vcore::{Args, Report, SplitMix};

#[derive(Clone, Debug)]
enum FileSpec {
    Missing,
    Directory,
    Bytes(Vec<u8>),
}

/// reference parser: Some(set) if the load must succeed
fn reference_load(spec: &FileSpec) -> Option<BTreeSet<[u8; 20]>> {
    let bytes = match spec {
        FileSpec::Bytes(b) => b,
        _ => return None,
    };
    let text = std::str::from_utf8(bytes).ok()?;
    let mut set = BTreeSet::new();
    // lines are separated by \n; a trailing \r belongs to the surrounding whitespace that is trimmed
    for line in text.split('\n') {
        let line = line.trim();
        if line.is_empty() {
            continue;
        }
        if line.len() != 40 || !line.bytes().all(|c| c.is_ascii_hexdigit()) {
            return None;
        }
        let v = vcore::unhex(line);
        set.insert(v.try_into().unwrap());
    }
    Some(set)
}

fn gen_file(r: &mut SplitMix, pool: &[[u8; 20]]) -> (FileSpec, &'static str) {
    match r.below(14) {
        0 => (FileSpec::Missing, "missing"),
        1 => (FileSpec::Directory, "directory"),
        2 => (FileSpec::Bytes(vec![]), "empty"),
        _ => {
            let n = r.usize(8);
            let mut lines: Vec<String> = Vec::new();
            for _ in 0..n {
                let picked: [u8; 20] = pool[r.usize(pool.len())];
                let h = vcore::hex(&picked);
                let l = match r.below(8) {
                    0 => h.to_uppercase(),
                    1 => h.chars().enumerate().map(|(i, c)| if i % 2 == 0 { c.to_ascii_uppercase() } else { c }).collect(),
                    2 => format!("  {}", h),
                    3 => format!("{}\t ", h),
                    4 => String::new(),
                    5 => "   ".to_string(),
                    _ => h,
                };
                lines.push(l);
            }
            let mut class = "valid";
            if r.chance(2, 5) {
                // a bad line at a random position
                let bad = match r.below(9) {
                    0 => vcore::hex(&r.arr20())[..39].to_string(),
                    1 => format!("{}a", vcore::hex(&r.arr20())),
                    2 => format!("{}g", &vcore::hex(&r.arr20())[..39]),
                    3 => "not a hash".to_string(),
                    4 => format!("{} {}", vcore::hex(&r.arr20()), vcore::hex(&r.arr20())),
                    5 => format!("0x{}", &vcore::hex(&r.arr20())[..38]),
                    6 => format!("{}\u{e9}", &vcore::hex(&r.arr20())[..38]),
                    7 => format!("# {}", vcore::hex(&r.arr20())),
                    _ => "-".to_string(),
                };
                let pos = r.usize(lines.len() + 1);
                lines.insert(pos, bad);
                class = "bad_line";
            }
            let sep = *r.pick(&["\n", "\r\n"]);
            let mut text = lines.join(sep);
            if r.chance(1, 2) {
                text.push_str(sep);
            }
            let mut bytes = text.into_bytes();
            if r.chance(1, 15) {
                let pos = r.usize(bytes.len() + 1);
                bytes.insert(pos, 0xff); // not UTF-8
                class = "non_utf8";
            }
            (FileSpec::Bytes(bytes), class)
        }
    }
}

fn install(spec: &FileSpec, path: &PathBuf) {
    let _ = std::fs::remove_file(path);
    let _ = std::fs::remove_dir(path);
    match spec {
        FileSpec::Missing => {}
        FileSpec::Directory => std::fs::create_dir(path).unwrap(),
        FileSpec::Bytes(b) => std::fs::write(path, b).unwrap(),
    }
}

fn main() {
    let args = Args::parse();
    vcore::quiet_panics();
    let mut report = Report::new(
        "access_list",
        "sequences of reloads through update_access_list on a shared ArcSwap with caches created before the reloads; list files valid (upper/lower/mixed case, blank lines, surrounding whitespace, CRLF), malformed at a random position (39/41 digits, non-hex, two hashes on a line, comments, non-UTF-8), missing, or a directory; after every reload every probe hash is queried through a cache and through AccessListQuery in all three modes; \
         non-trivial = sequence containing a failed reload after a successful one; distinct = hash of the (file class, outcome) sequence",
    );
    let tmp = PathBuf::from(args.str("tmpdir", "/verif/evidence/tmp")).join(format!("access_list_{}", std::process::id()));
    std::fs::create_dir_all(&tmp).unwrap();
    let path = tmp.join("list.txt");
    let mut r = SplitMix::new(args.seed()).fork(0xC11 + args.u64("shard", 0) * 7919);
    let n = args.u64("sequences", if args.thorough() { 2_000_000 } else { 6000 });
    let budget_s = args.u64("budget_s", if args.thorough() { 100 } else { 20 });
    let mut seqs = 0;
    while seqs < n && report.started.elapsed().as_secs() < budget_s && report.num_violations() < 10 {
        seqs += 1;
        let pool: Vec<[u8; 20]> = (0..6).map(|_| r.arr20()).collect();
        let mode = *r.pick(&[AccessListMode::Allow, AccessListMode::Deny, AccessListMode::Off]);
        let config = AccessListConfig { mode, path: path.clone() };
        let shared: Arc<AccessListArcSwap> = Arc::new(AccessListArcSwap::default());
        let mut caches = vec![create_access_list_cache(&shared), create_access_list_cache(&shared)];
        let mut current: BTreeSet<[u8; 20]> = BTreeSet::new(); // reference: list in force
        let mut trace: Vec<String> = Vec::new();
        let mut shape: Vec<u8> = Vec::new();
        let mut had_ok = false;
        let mut nontrivial = false;
        let steps = 1 + r.usize(6);
        for step in 0..steps {
            let (spec, class) = gen_file(&mut r, &pool);
            install(&spec, &path);
            let want = reference_load(&spec);
            let res = update_access_list(&config, &shared);
            report.eval();
            let replay = |trace: &Vec<String>| json!({"engine":"access_list","mode":format!("{:?}", mode),"steps":trace});
            trace.push(format!("{}: {}", class, match &spec { FileSpec::Bytes(b) => String::from_utf8_lossy(b).replace('\n', "\\n").replace('\r', "\\r"), other => format!("{:?}", other) }));
            if mode == AccessListMode::Off {
                // mode off: nothing is loaded, everything is admitted
                if res.is_err() {
                    report.violation("access_list.off_mode_load_error", "list", "update_access_list failed although the mode is off".to_string(), replay(&trace));
                }
            } else {
                match (&want, &res) {
                    (Some(set), Ok(())) => {
                        current = set.clone();
                        had_ok = true;
                    }
                    (None, Err(_)) => {
                        if had_ok {
                            nontrivial = true;
                        }
                    }
                    (Some(_), Err(e)) => {
                        report.violation("access_list.valid_file_rejected", "list", format!("reload of a well-formed file failed: {:#}", e), replay(&trace));
                        break;
                    }
                    (None, Ok(())) => {
                        report.violation("access_list.malformed_file_accepted", "list", format!("reload of a {} file succeeded", class), replay(&trace));
                        break;
                    }
                }
            }
            shape.push(match class { "valid" => 1, "bad_line" => 2, "missing" => 3, "directory" => 4, "non_utf8" => 5, _ => 6 } + if res.is_ok() { 0 } else { 10 });
            // decisions through every access path follow the list in force (previous one after a failed reload)
            let mut probes: Vec<[u8; 20]> = pool.clone();
            probes.push(r.arr20());
            for h in probes.iter() {
                for qmode in [AccessListMode::Allow, AccessListMode::Deny, AccessListMode::Off] {
                    let want_allow = match qmode {
                        AccessListMode::Allow => current.contains(h),
                        AccessListMode::Deny => !current.contains(h),
                        AccessListMode::Off => true,
                    };
                    report.eval();
                    let via_cache0 = caches[0].load().allows(qmode, h);
                    let via_cache1 = if step % 2 == 0 { caches[1].load().allows(qmode, h) } else { want_allow }; // second worker looks only now and then
                    let via_query = AccessListQuery::allows(&*shared, qmode, h);
                    if via_cache0 != want_allow || via_cache1 != want_allow || via_query != want_allow {
                        let sig = if want.is_none() { "access_list.failed_reload_changed_decisions" } else { "access_list.decision_differs" };
                        report.violation(sig, "list", format!("after step {} ({}), hash {} in mode {:?}: cache {} / {} query {} reference {}", step, class, vcore::hex(&h[..4]), qmode, via_cache0, via_cache1, via_query, want_allow), replay(&trace));
                    }
                }
            }
        }
        if nontrivial {
            report.nontrivial(vcore::fnv(&shape));
        }
        if report.samples.len() < 3 && trace.len() > 2 && nontrivial {
            report.sample(json!({"mode": format!("{:?}", mode), "steps": trace}));
        }
    }
    report.add("sequences", seqs);
    let _ = std::fs::remove_dir_all(&tmp);
    report.finish(&args.out());
}
