//! codec_diff engine for aquatic_http_protocol (C14): request round trips,
//! query-string parsing against a reference writer/decoder, identifier
//! decoding, replies against an independent canonical bencode encoder and a
//! strict decoder.

use std::collections::BTreeMap;
use std::net::{Ipv4Addr, Ipv6Addr};
use std::panic::{catch_unwind, AssertUnwindSafe};

use aquatic_http_protocol::common::{AnnounceEvent, InfoHash, PeerId};
use aquatic_http_protocol::request::{AnnounceRequest, Request, ScrapeRequest};
use aquatic_http_protocol::response::*;
use serde_json::json;

use vcore::bencode::{self, B};
use vcore::{Args, Report, SplitMix};

#[derive(Clone, Debug)]
struct RefAnnounce {
    info_hash: [u8; 20],
    peer_id: [u8; 20],
    port: u16,
    uploaded: usize,
    downloaded: usize,
    left: usize,
    event: u8, // 0 empty 1 started 2 stopped 3 completed
    numwant: Option<usize>,
    key: Option<String>,
}

fn ev(e: u8) -> AnnounceEvent {
    match e {
        1 => AnnounceEvent::Started,
        2 => AnnounceEvent::Stopped,
        3 => AnnounceEvent::Completed,
        _ => AnnounceEvent::Empty,
    }
}

fn to_aq(a: &RefAnnounce) -> AnnounceRequest {
    AnnounceRequest {
        info_hash: InfoHash(a.info_hash),
        peer_id: PeerId(a.peer_id),
        port: a.port,
        bytes_uploaded: a.uploaded,
        bytes_downloaded: a.downloaded,
        bytes_left: a.left,
        event: ev(a.event),
        numwant: a.numwant,
        key: a.key.as_ref().map(|k| k.as_str().into()),
    }
}

/// How one identifier byte is written in a query string
#[derive(Clone, Copy, PartialEq)]
enum Style {
    /// only unreserved ASCII raw, everything else %xx
    AsciiSafe,
    /// every byte that does not break the key=value structure as a raw U+00xx character
    Latin1Raw,
}

fn write_id(out: &mut String, id: &[u8; 20], style: Style, r: &mut SplitMix) {
    for b in id {
        let c = *b as char;
        let unreserved = c.is_ascii_alphanumeric() || matches!(c, '-' | '.' | '_' | '~');
        let raw_ok = match style {
            Style::AsciiSafe => unreserved,
            Style::Latin1Raw => !matches!(c, '%' | '&' | '='),
        };
        if raw_ok && r.chance(2, 3) {
            out.push(c);
        } else if r.chance(1, 2) {
            out.push_str(&format!("%{:02x}", b));
        } else {
            out.push_str(&format!("%{:02X}", b));
        }
    }
}

fn percent_encode_str(s: &str) -> String {
    let mut o = String::new();
    for b in s.as_bytes() {
        let c = *b as char;
        if c.is_ascii_alphanumeric() || matches!(c, '-' | '.' | '_' | '~') {
            o.push(c);
        } else {
            o.push_str(&format!("%{:02X}", b));
        }
    }
    o
}

/// Reference writer: parameters in random order, unknown keys mixed in
fn ref_announce_path(a: &RefAnnounce, style: Style, r: &mut SplitMix) -> String {
    let mut params: Vec<String> = Vec::new();
    let mut ih = String::from("info_hash=");
    write_id(&mut ih, &a.info_hash, style, r);
    params.push(ih);
    let mut pid = String::from("peer_id=");
    write_id(&mut pid, &a.peer_id, style, r);
    params.push(pid);
    params.push(format!("port={}", a.port));
    params.push(format!("uploaded={}", a.uploaded));
    params.push(format!("downloaded={}", a.downloaded));
    params.push(format!("left={}", a.left));
    match a.event {
        1 => params.push("event=started".into()),
        2 => params.push("event=stopped".into()),
        3 => params.push("event=completed".into()),
        _ => {
            if r.chance(1, 3) {
                params.push("event=empty".into())
            }
        }
    }
    if let Some(n) = a.numwant {
        params.push(format!("numwant={}", n));
    }
    if let Some(k) = &a.key {
        params.push(format!("key={}", percent_encode_str(k)));
    }
    if r.chance(1, 2) {
        params.push("compact=1".into());
    }
    for _ in 0..r.usize(3) {
        params.push(r.pick(&["supportcrypto=1", "no_peer_id=1", "corrupt=0", "redundant=0", "x=", "trackerid=abc"]).to_string());
    }
    r.shuffle(&mut params);
    format!("/announce?{}", params.join("&"))
}

/// Reference identifier decoder: exactly the strings that denote 20 bytes
fn ref_decode_id(s: &str) -> Option<[u8; 20]> {
    let mut out = Vec::new();
    let mut it = s.chars();
    while let Some(c) = it.next() {
        if c == '%' {
            let a = it.next()?;
            let b = it.next()?;
            if !a.is_ascii_hexdigit() || !b.is_ascii_hexdigit() {
                return None;
            }
            out.push((a.to_digit(16).unwrap() * 16 + b.to_digit(16).unwrap()) as u8);
        } else if (c as u32) <= 0xff {
            out.push(c as u32 as u8);
        } else {
            return None;
        }
    }
    out.try_into().ok()
}

fn gen_id(r: &mut SplitMix) -> [u8; 20] {
    match r.below(6) {
        0 => [0; 20],
        1 => [0xff; 20],
        2 => {
            // every byte value appears over time
            let base = r.next() as u8;
            let mut a = [0u8; 20];
            for (i, x) in a.iter_mut().enumerate() {
                *x = base.wrapping_add(i as u8 * 13);
            }
            a
        }
        3 => *b"%&=?#+ /\\\"'<>{}|^`~\n",
        _ => r.arr20(),
    }
}

fn gen_usize(r: &mut SplitMix) -> usize {
    match r.below(8) {
        0 => 0,
        1 => 1,
        2 => usize::MAX,
        3 => usize::MAX - 1,
        4 => u32::MAX as usize,
        5 => 1 << 40,
        _ => r.next() as usize >> r.below(60),
    }
}

fn gen_count(r: &mut SplitMix) -> usize {
    gen_usize(r).min(i64::MAX as usize)
}

fn gen_key(r: &mut SplitMix) -> Option<String> {
    if r.chance(1, 2) {
        return None;
    }
    // encoded form must stay within the parser's documented 100-byte cap
    let alphabet = ['a', 'Z', '9', '-', '_', ' ', '&', '=', '%', '+', 'é', '𝕊', '/', '?'];
    let mut s = String::new();
    loop {
        let c = *r.pick(&alphabet);
        let mut t = s.clone();
        t.push(c);
        if percent_encode_str(&t).len() > 100 || t.chars().count() > r.usize(30) + 1 {
            break;
        }
        s = t;
    }
    Some(s)
}

fn gen_announce(r: &mut SplitMix) -> RefAnnounce {
    RefAnnounce {
        info_hash: gen_id(r),
        peer_id: gen_id(r),
        port: *r.pick(&[0u16, 1, 80, 6881, 65535, 12345]),
        uploaded: gen_usize(r),
        downloaded: gen_usize(r),
        left: gen_usize(r),
        event: r.below(4) as u8,
        numwant: if r.chance(1, 2) { Some(gen_usize(r)) } else { None },
        key: gen_key(r),
    }
}

fn ref_announce_response(interval: usize, complete: usize, incomplete: usize, p4: &[(Ipv4Addr, u16)], p6: &[(Ipv6Addr, u16)], warning: &Option<String>) -> Vec<u8> {
    let mut peers = Vec::new();
    for (ip, port) in p4 {
        peers.extend_from_slice(&ip.octets());
        peers.extend_from_slice(&port.to_be_bytes());
    }
    let mut peers6 = Vec::new();
    for (ip, port) in p6 {
        peers6.extend_from_slice(&ip.octets());
        peers6.extend_from_slice(&port.to_be_bytes());
    }
    let mut d = vec![
        (b"interval".to_vec(), B::Int(interval as i128)),
        (b"complete".to_vec(), B::Int(complete as i128)),
        (b"incomplete".to_vec(), B::Int(incomplete as i128)),
        (b"peers".to_vec(), B::Bytes(peers)),
        (b"peers6".to_vec(), B::Bytes(peers6)),
    ];
    if let Some(w) = warning {
        d.push((b"warning message".to_vec(), B::Bytes(w.as_bytes().to_vec())));
    }
    bencode::to_vec(&B::Dict(d))
}

fn ref_scrape_response(files: &BTreeMap<[u8; 20], (usize, usize)>) -> Vec<u8> {
    let f: Vec<(Vec<u8>, B)> = files
        .iter()
        .map(|(h, (c, i))| {
            (
                h.to_vec(),
                B::Dict(vec![
                    (b"incomplete".to_vec(), B::Int(*i as i128)),
                    (b"complete".to_vec(), B::Int(*c as i128)),
                    (b"downloaded".to_vec(), B::Int(0)),
                ]),
            )
        })
        .collect();
    bencode::to_vec(&B::Dict(vec![(b"files".to_vec(), B::Dict(f))]))
}

fn gen_text(r: &mut SplitMix) -> String {
    // a quarter: text that looks like bencode structure (runs of list / dict / integer openers, length prefixes) - payload
    // that anything scanning the bytes without parsing them (the nesting guard of the bundled client) must skip over
    if r.chance(1, 4) {
        let mut s = String::new();
        for _ in 0..(1 + r.usize(3)) {
            let c = *r.pick(&['l', 'd', 'i', 'e', '9']);
            for _ in 0..(10 + r.usize(80)) {
                s.push(c);
            }
            s.push_str(*r.pick(&["", ":", "5:", "i-", "le"]));
        }
        return s;
    }
    let len = r.usize(40);
    (0..len).map(|_| *r.pick(&['a', ' ', ':', 'e', 'd', '0', 'é', '𝕊', '\n', '"', 'l', 'i'])).collect()
}

fn main() {
    let args = Args::parse();
    vcore::quiet_panics();
    let mut report = Report::new(
        "codec_http",
        "aquatic_http_protocol: library-written requests parse back equal; reference-written query strings (any order, unknown keys, raw Latin-1 / %xx / %XX) parse to intended values; identifier strings accepted iff they denote exactly 20 bytes; replies byte-identical to an independent canonical bencode encoder, accepted by a strict decoder and parsed back equal; \
         distinct = (check kind, event, optional-field pattern, identifier class, peers 0/1/many of each family)",
    );
    let mut r = SplitMix::new(args.seed()).fork(0xC14 + args.u64("shard", 0) * 104729);
    let n = args.u64("messages", 200_000);
    let budget_s = args.u64("budget_s", 25);

    macro_rules! fail {
        ($sig:expr, $detail:expr, $replay:expr) => {{
            report.violation($sig, "codec", $detail, $replay);
        }};
    }

    if let Some(path) = args.get("replay") {
        let v: serde_json::Value = serde_json::from_str(&std::fs::read_to_string(path).unwrap()).unwrap();
        if let Some(p) = v["path"].as_str() {
            println!("replay: parse_http_get_path({:?}) -> {:?}", p, catch_unwind(AssertUnwindSafe(|| Request::parse_http_get_path(p).map_err(|e| e.to_string()))));
        }
        if let Some(idstr) = v["id_string"].as_str() {
            let path = format!("/scrape?info_hash={}", idstr);
            let got = Request::parse_http_get_path(&path).ok();
            let want = ref_decode_id(idstr);
            println!("replay: identifier {:?}: reference {:?}, parser {:?}", idstr, want.map(|x| vcore::hex(&x)), got);
            let got_id = match got {
                Some(Request::Scrape(s)) if s.info_hashes.len() == 1 => Some(s.info_hashes[0].0),
                _ => None,
            };
            if got_id != want {
                report.violation(v["signature"].as_str().unwrap_or("http.codec.replay"), "codec", "identifier decoding differs from reference".to_string(), v.clone());
            }
        }
        report.eval();
        report.finish(&args.out());
    }

    let mut i = 0u64;
    while i < n && report.started.elapsed().as_secs() < budget_s && report.num_violations() < 10 {
        i += 1;
        // ---- A: library writer -> parser
        let a = gen_announce(&mut r);
        let aq = Request::Announce(to_aq(&a));
        let mut bytes = Vec::new();
        let suffix: &[u8] = if r.chance(1, 4) { b"/abc" } else { b"" };
        aq.write(&mut bytes, suffix).unwrap();
        report.eval();
        if suffix.is_empty() {
            match catch_unwind(AssertUnwindSafe(|| Request::parse_bytes(&bytes))) {
                Err(p) => fail!("http.codec.request.parse_panic", format!("parse_bytes panicked: {}", vproto::panic_text(&*p)), json!({"engine":"codec_http","bytes":vcore::hex(&bytes)})),
                Ok(Ok(Some(back))) if back == aq => {}
                Ok(other) => fail!("http.codec.request.roundtrip", format!("library-written announce did not parse back equal: {:?} (sent {:?})", other.map_err(|e| e.to_string()), aq), json!({"engine":"codec_http","bytes":vcore::hex(&bytes)})),
            }
        }
        report.nontrivial(vcore::fnv(&[1, a.event, a.numwant.is_some() as u8, a.key.is_some() as u8]));
        let hashes: Vec<[u8; 20]> = (0..(1 + r.usize(5))).map(|_| gen_id(&mut r)).collect();
        let sq = Request::Scrape(ScrapeRequest { info_hashes: hashes.iter().map(|h| InfoHash(*h)).collect() });
        let mut sbytes = Vec::new();
        sq.write(&mut sbytes, b"").unwrap();
        report.eval();
        match catch_unwind(AssertUnwindSafe(|| Request::parse_bytes(&sbytes))) {
            Ok(Ok(Some(back))) if back == sq => {}
            other => fail!("http.codec.request.roundtrip", format!("library-written scrape did not parse back equal: {:?}", other.map(|x| x.map_err(|e| e.to_string())).map_err(|p| vproto::panic_text(&*p))), json!({"engine":"codec_http","bytes":vcore::hex(&sbytes)})),
        }
        report.nontrivial(vcore::fnv(&[2, hashes.len().min(3) as u8]));

        // ---- B: reference writer (any order, unknown keys) -> parser
        let style = if r.chance(1, 2) { Style::AsciiSafe } else { Style::Latin1Raw };
        let path = ref_announce_path(&a, style, &mut r);
        report.eval();
        match catch_unwind(AssertUnwindSafe(|| Request::parse_http_get_path(&path))) {
            Err(p) => fail!("http.codec.request.parse_panic", format!("parse_http_get_path panicked: {}", vproto::panic_text(&*p)), json!({"engine":"codec_http","path":path})),
            Ok(Ok(back)) if back == aq => {}
            Ok(other) => fail!("http.codec.query.any_order", format!("well-formed query string parsed to {:?}, intended {:?}", other.map_err(|e| e.to_string()), aq), json!({"engine":"codec_http","path":path})),
        }
        if style == Style::AsciiSafe {
            let full = format!("GET {} HTTP/1.1\r\nHost: t\r\nUser-Agent: x\r\n\r\n", path);
            report.eval();
            match catch_unwind(AssertUnwindSafe(|| Request::parse_bytes(full.as_bytes()))) {
                Ok(Ok(Some(back))) if back == aq => {}
                other => fail!("http.codec.query.any_order", format!("well-formed HTTP request parsed to {:?}", other.map(|x| x.map_err(|e| e.to_string())).map_err(|p| vproto::panic_text(&*p))), json!({"engine":"codec_http","bytes":vcore::hex(full.as_bytes())})),
            }
        }
        report.nontrivial(vcore::fnv(&[3, a.event, (style == Style::AsciiSafe) as u8]));

        // ---- C: identifier decoding: accepted iff exactly 20 bytes denoted
        let class = r.below(9) as u8;
        let mut s = String::new();
        let id = gen_id(&mut r);
        write_id(&mut s, &id, Style::Latin1Raw, &mut r);
        match class {
            0 => {}
            1 => {
                // 19 units
                let mut t = String::new();
                let mut short = [0u8; 20];
                short.copy_from_slice(&id);
                for b in &short[..19] {
                    t.push_str(&format!("%{:02x}", b));
                }
                s = t;
            }
            2 => s.push(*r.pick(&['a', '0', 'é'])),
            3 => s.push_str("%41"),
            4 => s.push('%'),
            5 => s.push_str("%4"),
            6 => {
                // bad hex digit inside an escape at a random position
                let pos = r.usize(20);
                let mut t = String::new();
                for (k, b) in id.iter().enumerate() {
                    if k == pos {
                        let bad: &str = *r.pick(&["%G1", "%1g", "%zz", "% 1", "%+1", "%-1"]);
                        t.push_str(bad);
                    } else {
                        t.push_str(&format!("%{:02x}", b));
                    }
                }
                s = t;
            }
            7 => {
                // character above U+00FF at a random position (raw)
                let pos = r.usize(20);
                let mut t = String::new();
                for (k, b) in id.iter().enumerate() {
                    if k == pos {
                        t.push(*r.pick(&['Ā', 'İ', '€', '𝕊', '\u{ff21}', '\u{0130}', '\u{0141}']));
                    } else {
                        t.push_str(&format!("%{:02x}", b));
                    }
                }
                s = t;
            }
            _ => {
                // character above U+00FF used as a hex digit of an escape: low byte is an ASCII hex digit
                let pos = r.usize(20);
                let mut t = String::new();
                for (k, b) in id.iter().enumerate() {
                    if k == pos {
                        let fake = *r.pick(&['\u{0130}', '\u{0141}', '\u{0231}', '\u{0461}', '\u{ff41}', '\u{1f431}']);
                        if r.chance(1, 2) {
                            t.push('%');
                            t.push(fake);
                            t.push('1');
                        } else {
                            t.push('%');
                            t.push('1');
                            t.push(fake);
                        }
                    } else {
                        t.push_str(&format!("%{:02x}", b));
                    }
                }
                s = t;
            }
        }
        let want = ref_decode_id(&s);
        let qpath = format!("/scrape?info_hash={}", s);
        report.eval();
        match catch_unwind(AssertUnwindSafe(|| Request::parse_http_get_path(&qpath))) {
            Err(p) => fail!("http.codec.request.parse_panic", format!("parse_http_get_path panicked: {}", vproto::panic_text(&*p)), json!({"engine":"codec_http","path":qpath})),
            Ok(res) => {
                let got = match &res {
                    Ok(Request::Scrape(sr)) if sr.info_hashes.len() == 1 => Some(sr.info_hashes[0].0),
                    _ => None,
                };
                if got != want {
                    let sig = match (got, want) {
                        (Some(_), None) if class == 8 => "http.urldecode.non_latin1_hex_digit",
                        (Some(_), None) => "http.codec.id.accepted_not_20_bytes",
                        (None, Some(_)) => "http.codec.id.rejected_20_bytes",
                        _ => "http.codec.id.wrong_value",
                    };
                    fail!(sig, format!("identifier string {:?} (class {}): reference {:?}, parser {:?}", s, class, want.map(|x| vcore::hex(&x)), got.map(|x| vcore::hex(&x))), json!({"engine":"codec_http","id_string":s,"signature":sig}));
                }
            }
        }
        report.nontrivial(vcore::fnv(&[4, class]));

        // over-long key must be rejected, not truncated
        if r.chance(1, 50) {
            let long = "k".repeat(101 + r.usize(50));
            let p = format!("{}&key={}", ref_announce_path(&RefAnnounce { key: None, ..a.clone() }, Style::AsciiSafe, &mut r), long);
            report.eval();
            if let Ok(Ok(req)) = catch_unwind(AssertUnwindSafe(|| Request::parse_http_get_path(&p))) {
                fail!("http.codec.key.overlong_accepted", format!("key of {} bytes accepted: {:?}", long.len(), req), json!({"engine":"codec_http","path":p}));
            }
            report.nontrivial(vcore::fnv(&[5]));
        }

        // ---- D: replies
        let n4 = *r.pick(&[0usize, 0, 1, 2, 50, 200]);
        let n6 = *r.pick(&[0usize, 0, 1, 2, 50, 200]);
        // a fifth of the replies: compact peer entries whose bytes are all 'l' / 'd' / 'i' (108.100.105.x:0x6c64 ...)
        let looks_like_bencode = r.chance(1, 5);
        let lb = |r: &mut SplitMix| *r.pick(&[b'l', b'd', b'i', b'l', b'd']);
        let p4: Vec<(Ipv4Addr, u16)> = (0..n4).map(|_| if looks_like_bencode { (Ipv4Addr::new(lb(&mut r), lb(&mut r), lb(&mut r), lb(&mut r)), u16::from_be_bytes([lb(&mut r), lb(&mut r)])) } else { (Ipv4Addr::from(r.next() as u32), r.next() as u16) }).collect();
        let p6: Vec<(Ipv6Addr, u16)> = (0..n6).map(|_| if looks_like_bencode { let b = lb(&mut r); (Ipv6Addr::from([b; 16]), u16::from_be_bytes([b, lb(&mut r)])) } else { (Ipv6Addr::from((r.next() as u128) << 64 | r.next() as u128), r.next() as u16) }).collect();
        let warning = if r.chance(1, 3) { Some(gen_text(&mut r)) } else { None };
        // counters are bounded by i64::MAX: bencode integers are read back as i64 by the bundled client (documented assumption)
        let (interval, complete, incomplete) = (gen_count(&mut r), gen_count(&mut r), gen_count(&mut r));
        let resp = Response::Announce(AnnounceResponse {
            announce_interval: interval,
            complete,
            incomplete,
            peers: ResponsePeerListV4(p4.iter().map(|(ip, port)| ResponsePeer { ip_address: *ip, port: *port }).collect()),
            peers6: ResponsePeerListV6(p6.iter().map(|(ip, port)| ResponsePeer { ip_address: *ip, port: *port }).collect()),
            warning_message: warning.clone(),
        });
        let want_bytes = ref_announce_response(interval, complete, incomplete, &p4, &p6, &warning);
        check_reply(&mut report, &resp, &want_bytes, "announce");
        report.nontrivial(vcore::fnv(&[6, n4.min(2) as u8, n6.min(2) as u8, warning.is_some() as u8]));

        let nfiles = *r.pick(&[0usize, 1, 2, 5, 100]);
        let mut files = BTreeMap::new();
        for _ in 0..nfiles {
            files.insert(gen_id(&mut r), (gen_count(&mut r), gen_count(&mut r)));
        }
        let resp = Response::Scrape(ScrapeResponse { files: files.iter().map(|(h, (c, i))| (InfoHash(*h), ScrapeStatistics { complete: *c, incomplete: *i, downloaded: 0 })).collect() });
        check_reply(&mut report, &resp, &ref_scrape_response(&files), "scrape");
        report.nontrivial(vcore::fnv(&[7, files.len().min(3) as u8]));

        let reason = gen_text(&mut r);
        let resp = Response::Failure(FailureResponse { failure_reason: reason.clone().into() });
        let want = bencode::to_vec(&B::Dict(vec![(b"failure reason".to_vec(), B::Bytes(reason.as_bytes().to_vec()))]));
        check_reply(&mut report, &resp, &want, "failure");
        report.nontrivial(vcore::fnv(&[8, reason.len().min(2) as u8]));

        if report.samples.len() < 3 {
            report.sample(json!({"reference_written_path": path, "identifier_string": s, "identifier_class": class, "announce_reply_bytes": vcore::hex(&want_bytes[..want_bytes.len().min(80)])}));
        }
    }
    report.add("iterations", i);
    report.finish(&args.out());
}

fn check_reply(report: &mut Report, resp: &Response, want: &[u8], kind: &str) {
    let mut got = Vec::new();
    let written = resp.write_bytes(&mut got).unwrap();
    report.eval();
    let replay = json!({"engine":"codec_http","reply_kind":kind,"written":vcore::hex(&got[..got.len().min(400)])});
    if written != got.len() {
        report.violation("http.codec.reply.length_reported", "codec", format!("write_bytes reports {} bytes but wrote {}", written, got.len()), replay.clone());
    }
    if got != want {
        report.violation(&format!("http.codec.reply.{}.bytes", kind), "codec", format!("{} reply differs from independent canonical bencode encoder", kind), replay.clone());
        return;
    }
    if let Err(e) = bencode::decode(&got) {
        report.violation(&format!("http.codec.reply.{}.not_canonical", kind), "codec", format!("strict decoder rejects the reply: {}", e), replay.clone());
        return;
    }
    report.eval();
    match catch_unwind(AssertUnwindSafe(|| Response::parse_bytes(&got))) {
        Err(p) => report.violation("http.codec.reply.parse_panic", "codec", format!("Response::parse_bytes panicked: {}", vproto::panic_text(&*p)), replay),
        Ok(Err(e)) => report.violation(&format!("http.codec.reply.{}.parse_back", kind), "codec", format!("own reply rejected by Response::parse_bytes: {}", e), replay),
        Ok(Ok(back)) => {
            let same_kind = matches!((&back, resp), (Response::Announce(_), Response::Announce(_)) | (Response::Scrape(_), Response::Scrape(_)) | (Response::Failure(_), Response::Failure(_)));
            let mut again = Vec::new();
            back.write_bytes(&mut again).unwrap();
            if !same_kind || again != got || format!("{:?}", back) != format!("{:?}", resp) {
                report.violation(&format!("http.codec.reply.{}.parse_back", kind), "codec", format!("reply parsed back to a different value: {:?}", back), replay);
            }
        }
    }
}
