//! C03 engine, API layers: (1) address canonicalisation of the UDP/HTTP
//! (`CanonicalSocketAddr::new`) and WS (`IpVersion::canonical_from_ip`) code
//! against std's own IPv4-mapped classification; (2) the reverse-proxy header
//! logic of `aquatic_http` (`parse_request`) against the reference rule "last
//! address of the last occurrence of the configured header, trimmed".

use std::net::{IpAddr, Ipv4Addr, Ipv6Addr, SocketAddr, SocketAddrV6};
use std::panic::{catch_unwind, AssertUnwindSafe};

use aquatic_common::CanonicalSocketAddr;
use serde_json::json;

use vcore::{Args, Report, SplitMix};

fn gen_ip(r: &mut SplitMix) -> IpAddr {
    let v4 = Ipv4Addr::from(match r.below(6) {
        0 => 0u32,
        1 => u32::MAX,
        2 => 0x7f000001,
        _ => r.next() as u32,
    });
    let o = v4.octets();
    match r.below(12) {
        0 | 1 => IpAddr::V4(v4),
        2 | 3 | 4 => IpAddr::V6(v4.to_ipv6_mapped()),                                                                  // ::ffff:a.b.c.d
        5 => IpAddr::V6(Ipv6Addr::new(0, 0, 0, 0, 0, 0, u16::from_be_bytes([o[0], o[1]]), u16::from_be_bytes([o[2], o[3]]))),      // ::a.b.c.d (compatible, NOT mapped)
        6 => IpAddr::V6(Ipv6Addr::new(0, 0, 0, 0, 0xffff, 0, u16::from_be_bytes([o[0], o[1]]), u16::from_be_bytes([o[2], o[3]]))), // ::ffff:0:a.b.c.d (translated, NOT mapped)
        7 => IpAddr::V6(Ipv6Addr::new(0x64, 0xff9b, 0, 0, 0, 0, u16::from_be_bytes([o[0], o[1]]), u16::from_be_bytes([o[2], o[3]]))), // 64:ff9b::/96
        8 => IpAddr::V6(Ipv6Addr::LOCALHOST),
        9 => IpAddr::V6(Ipv6Addr::UNSPECIFIED),
        10 => IpAddr::V6(Ipv6Addr::new(0, 0, 0, 0, 0, 0xfffe, u16::from_be_bytes([o[0], o[1]]), u16::from_be_bytes([o[2], o[3]]))), // one bit off the mapped prefix
        _ => IpAddr::V6(Ipv6Addr::from((r.next() as u128) << 64 | r.next() as u128)),
    }
}

fn main() {
    let args = Args::parse();
    vcore::quiet_panics();
    let mut report = Report::new(
        "addr_canon",
        "(1) CanonicalSocketAddr::new / get_ipv6_mapped round trip and ws IpVersion::canonical_from_ip vs std's to_ipv4_mapped on boundary forms (::ffff:a.b.c.d, ::a.b.c.d, ::ffff:0:a.b.c.d, 64:ff9b::/96, ::1, ::, near-miss prefixes, scoped addresses) and random addresses; (2) http parse_request in reverse-proxy mode on generated header blocks (several occurrences, comma lists, optional whitespace, other headers between, up to 16 headers) vs the reference rule; \
         distinct = (address class) / (occurrences, list length, whitespace pattern, position of the header)",
    );
    let mut r = SplitMix::new(args.seed()).fork(0xC03A);
    let n = args.u64("cases", if args.thorough() { 20_000_000 } else { 150_000 });
    let budget_s = args.u64("budget_s", if args.thorough() { 100 } else { 15 });
    let mut config = aquatic_http::config::Config::default();
    config.network.runs_behind_reverse_proxy = true;
    let header_names = ["X-Forwarded-For", "X-Real-IP", "Forwarded-For"];
    let mut i = 0;
    while i < n && report.started.elapsed().as_secs() < budget_s && report.num_violations() < 10 {
        i += 1;
        // ---------------- (1) canonicalisation
        let ip = gen_ip(&mut r);
        let port = r.next() as u16;
        let sa = match (ip, r.chance(1, 8)) {
            (IpAddr::V6(a), true) => SocketAddr::V6(SocketAddrV6::new(a, port, r.next() as u32, r.next() as u32)), // flowinfo / scope id
            _ => SocketAddr::new(ip, port),
        };
        let want_ip: IpAddr = match ip {
            IpAddr::V4(a) => IpAddr::V4(a),
            IpAddr::V6(a) => a.to_ipv4_mapped().map(IpAddr::V4).unwrap_or(IpAddr::V6(a)),
        };
        report.eval();
        let c = CanonicalSocketAddr::new(sa);
        if c.get().ip() != want_ip || c.get().port() != port || c.is_ipv4() != want_ip.is_ipv4() {
            report.violation("common.canonical_addr.classification", "address", format!("{} canonicalised to {} (expected ip {})", sa, c.get(), want_ip), json!({"engine":"addr_canon","addr":sa.to_string()}));
        }
        // what a reply is addressed to on an IPv6 socket must reach the same host
        if let IpAddr::V4(v4) = want_ip {
            let m = c.get_ipv6_mapped();
            if m.ip() != IpAddr::V6(v4.to_ipv6_mapped()) || m.port() != port {
                report.violation("common.canonical_addr.mapped_roundtrip", "address", format!("{} maps back to {}", sa, m), json!({"engine":"addr_canon","addr":sa.to_string()}));
            }
            if c.get_ipv4().map(|x| x.ip()) != Some(IpAddr::V4(v4)) {
                report.violation("common.canonical_addr.get_ipv4", "address", format!("{}: get_ipv4 = {:?}", sa, c.get_ipv4()), json!({"engine":"addr_canon","addr":sa.to_string()}));
            }
        }
        let ws_v4 = matches!(aquatic_ws_ip_version(ip), true);
        if ws_v4 != want_ip.is_ipv4() {
            report.violation("ws.canonical_from_ip.classification", "address", format!("ws classifies {} as {}", ip, if ws_v4 { "IPv4" } else { "IPv6" }), json!({"engine":"addr_canon","addr":ip.to_string()}));
        }
        let class = match ip {
            IpAddr::V4(_) => 0u8,
            IpAddr::V6(a) if a.to_ipv4_mapped().is_some() => 1,
            IpAddr::V6(a) if a.octets()[..12] == [0; 12] => 2,
            IpAddr::V6(a) if a.segments()[0] == 0x64 => 3,
            IpAddr::V6(a) if a.segments()[4] == 0xffff => 4,
            IpAddr::V6(a) if a.segments()[5] == 0xfffe => 5,
            _ => 6,
        };
        report.nontrivial(vcore::fnv(&[1, class, sa.is_ipv6() as u8]));

        // ---------------- (2) reverse proxy header
        if i % 3 == 0 {
            let name = *r.pick(&header_names);
            config.network.reverse_proxy_ip_header_name = name.to_string();
            // the proxy appends the real peer as the last value of the last occurrence
            let real = gen_ip(&mut r);
            let occurrences = 1 + r.usize(3);
            let mut headers: Vec<String> = Vec::new();
            let mut shape = vec![occurrences as u8];
            for k in 0..occurrences {
                let n_vals = 1 + r.usize(4);
                let mut vals: Vec<String> = (0..n_vals).map(|_| gen_ip(&mut r).to_string()).collect();
                if k == occurrences - 1 {
                    *vals.last_mut().unwrap() = real.to_string();
                }
                let sep = *r.pick(&[",", ", ", " ,", " , ", ",  "]);
                let lead = *r.pick(&["", " ", "  ", "\t"]);
                let trail = *r.pick(&["", " ", "  "]);
                headers.push(format!("{}:{}{}{}", name, lead, vals.join(sep), trail));
                shape.push(n_vals as u8);
                // other headers in between, also ones with similar names
                for _ in 0..r.usize(3) {
                    let other: String = r.pick(&["Accept: */*", "User-Agent: x", "X-Forwarded-Host: 9.9.9.9", "X-Forwarded-For-Not: 8.8.8.8", "Connection: keep-alive", "x-forwarded-for: 7.7.7.7", "Via: 1.1 proxy"]).to_string();
                    // a lower-case spelling of the configured name is a different header for the tracker (exact match): keep it out of the way
                    if !other.to_ascii_lowercase().starts_with(&format!("{}:", name.to_ascii_lowercase())) {
                        headers.push(other);
                    }
                }
            }
            // decoys before the first real occurrence
            if r.chance(1, 2) {
                headers.insert(0, "Host: tracker".to_string());
            }
            if headers.len() > 16 {
                headers.truncate(0);
                headers.push(format!("{}: {}", name, real));
            }
            let req = format!("GET /announce?info_hash=%01%02%03%04%05%06%07%08%09%0a%0b%0c%0d%0e%0f%10%11%12%13%14&peer_id=-AB1234-abcdefghijkl&port=1&uploaded=0&downloaded=0&left=0 HTTP/1.1\r\n{}\r\n\r\n", headers.join("\r\n"));
            report.eval();
            match catch_unwind(AssertUnwindSafe(|| aquatic_http::verif_api::parse_request(&config, req.as_bytes()))) {
                Err(p) => report.violation("http.parse_request.panic", "address", format!("parse_request panicked: {}", vproto::panic_text(&*p)), json!({"engine":"addr_canon","request":req})),
                Ok(Ok((_, Some(got)))) => {
                    if got != real {
                        report.violation("http.proxy_header.wrong_address", "address", format!("peer address {} extracted, the proxy appended {} (headers {:?})", got, real, headers), json!({"engine":"addr_canon","request":req}));
                    }
                }
                Ok(other) => report.violation("http.proxy_header.not_extracted", "address", format!("valid header block gave {:?}", other.map(|x| x.1).map_err(|e| e.to_string())), json!({"engine":"addr_canon","request":req})),
            }
            report.nontrivial(vcore::fnv(&shape));
            if report.samples.len() < 2 {
                report.sample(json!({"headers": headers, "peer_appended_by_proxy": real.to_string()}));
            }
        }
    }
    report.add("cases", i);
    report.finish(&args.out());
}

/// ws classification, through the public function of aquatic_ws
fn aquatic_ws_ip_version(ip: IpAddr) -> bool {
    matches!(aquatic_ws::common::IpVersion::canonical_from_ip(ip), aquatic_ws::common::IpVersion::V4)
}
