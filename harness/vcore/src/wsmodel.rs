//! Reference WebTorrent tracker (C08, C09, C10, C11, C17), written from the
//! property statements. One entry per (family, torrent, peer id); every entry
//! is owned by the connection that created it; outstanding offers are kept per
//! offering peer as (receiver, offer id) -> deadline.

use std::collections::{BTreeMap, BTreeSet};

use crate::model::{Fam, Hash20};

/// (socket worker index, per-worker connection key). Keys of different
/// workers may coincide; the pair is the connection's identity.
#[derive(Clone, Copy, Debug, PartialEq, Eq, PartialOrd, Ord, Hash)]
pub struct Conn {
    pub worker: u8,
    pub key: u64,
}

#[derive(Clone, Debug)]
pub struct WsEntry {
    pub seeder: bool,
    pub deadline: u64,
    pub owner: Conn,
    /// (answering peer, offer id) -> deadline of the expectation
    pub expecting: BTreeMap<(Hash20, Hash20), u64>,
    /// bumped each time this (torrent, peer id) is created anew
    pub incarnation: u64,
}

#[derive(Clone, Debug, Default)]
pub struct WsModel {
    pub torrents: BTreeMap<(Fam, Hash20), BTreeMap<Hash20, WsEntry>>,
    incarnations: BTreeMap<(Fam, Hash20, Hash20), u64>,
    /// (fam, torrent, offerer, receiver, offer id) -> (times forwarded, incarnation of offerer at last forward)
    forwards: BTreeMap<(Fam, Hash20, Hash20, Hash20, Hash20), (u64, u64)>,
}

#[derive(Clone, Debug, PartialEq, Eq)]
pub enum AnnounceOutcome {
    /// peer id exists and belongs to another connection: no reply, no effect
    Ignored,
    Handled {
        stopped: bool,
        /// counts after the announce took effect, announcer included
        complete: usize,
        incomplete: usize,
        /// stored peers of the torrent/family other than the sender (eligible offer receivers)
        others: BTreeSet<Hash20>,
        /// how many offers must be forwarded (0 when stopped)
        offers_expected: usize,
    },
}

#[derive(Clone, Debug, PartialEq, Eq)]
pub enum AnswerExpectation {
    /// must be forwarded to this connection (the offerer's)
    Forward(Conn),
    /// must not be forwarded: error to the answerer
    ErrorToSender,
    /// addressed peer not stored: nothing at all
    Nothing,
    /// statement leaves it open: either Forward(conn) or an error to the sender
    EitherForwardOrError(Conn),
}

impl WsModel {
    pub fn new() -> Self {
        Self::default()
    }

    pub fn entry(&self, fam: Fam, hash: &Hash20, peer: &Hash20) -> Option<&WsEntry> {
        self.torrents.get(&(fam, *hash)).and_then(|t| t.get(peer))
    }

    pub fn counts(&self, fam: Fam, hash: &Hash20) -> (usize, usize) {
        match self.torrents.get(&(fam, *hash)) {
            Some(t) => {
                let s = t.values().filter(|e| e.seeder).count();
                (s, t.len() - s)
            }
            None => (0, 0),
        }
    }

    pub fn owner(&self, fam: Fam, hash: &Hash20, peer: &Hash20) -> Option<Conn> {
        self.entry(fam, hash, peer).map(|e| e.owner)
    }

    /// (torrent, peer id) pairs a connection owns
    pub fn owned_by(&self, conn: Conn) -> Vec<(Fam, Hash20, Hash20)> {
        let mut v = Vec::new();
        for ((fam, hash), t) in self.torrents.iter() {
            for (pid, e) in t.iter() {
                if e.owner == conn {
                    v.push((*fam, *hash, *pid));
                }
            }
        }
        v
    }

    fn remove_entry(&mut self, fam: Fam, hash: &Hash20, peer: &Hash20) -> Option<WsEntry> {
        let t = self.torrents.get_mut(&(fam, *hash))?;
        let e = t.remove(peer);
        if t.is_empty() {
            self.torrents.remove(&(fam, *hash));
        }
        e
    }

    /// First half of an announce: ownership rule, upsert / stop, counts.
    #[allow(clippy::too_many_arguments)]
    pub fn announce(
        &mut self,
        conn: Conn,
        fam: Fam,
        hash: Hash20,
        peer: Hash20,
        stopped: bool,
        seeder: bool,
        deadline: u64,
        num_offers: Option<usize>,
        max_offers: usize,
    ) -> AnnounceOutcome {
        if let Some(e) = self.entry(fam, &hash, &peer) {
            if e.owner != conn {
                return AnnounceOutcome::Ignored;
            }
        }
        if stopped {
            self.remove_entry(fam, &hash, &peer);
        } else {
            let inc_key = (fam, hash, peer);
            let t = self.torrents.entry((fam, hash)).or_default();
            match t.get_mut(&peer) {
                Some(e) => {
                    e.seeder = seeder;
                    e.deadline = deadline;
                }
                None => {
                    let inc = self.incarnations.entry(inc_key).or_insert(0);
                    *inc += 1;
                    t.insert(
                        peer,
                        WsEntry {
                            seeder,
                            deadline,
                            owner: conn,
                            expecting: BTreeMap::new(),
                            incarnation: *inc,
                        },
                    );
                }
            }
        }
        let (complete, incomplete) = self.counts(fam, &hash);
        let others: BTreeSet<Hash20> = self
            .torrents
            .get(&(fam, hash))
            .map(|t| t.keys().filter(|k| **k != peer).copied().collect())
            .unwrap_or_default();
        let offers_expected = if stopped {
            0
        } else {
            num_offers.map(|k| k.min(max_offers).min(others.len())).unwrap_or(0)
        };
        AnnounceOutcome::Handled {
            stopped,
            complete,
            incomplete,
            others,
            offers_expected,
        }
    }

    /// Adopt an observed (legal) forwarding of `offer_id` from `from` to `to`
    pub fn record_forward(&mut self, fam: Fam, hash: Hash20, from: Hash20, to: Hash20, offer_id: Hash20, deadline: u64) {
        let inc = self.entry(fam, &hash, &from).map(|e| e.incarnation).unwrap_or(0);
        if let Some(t) = self.torrents.get_mut(&(fam, hash)) {
            if let Some(e) = t.get_mut(&from) {
                e.expecting.insert((to, offer_id), deadline);
            }
        }
        let f = self.forwards.entry((fam, hash, from, to, offer_id)).or_insert((0, inc));
        f.0 += 1;
        f.1 = inc;
    }

    /// What must happen to an answer from `answerer` to `to_peer` for `offer_id`
    pub fn answer_expectation(&self, fam: Fam, hash: &Hash20, answerer: &Hash20, to_peer: &Hash20, offer_id: &Hash20) -> AnswerExpectation {
        let e = match self.entry(fam, hash, to_peer) {
            Some(e) => e,
            None => return AnswerExpectation::Nothing,
        };
        let outstanding = e.expecting.contains_key(&(*answerer, *offer_id));
        let hist = self.forwards.get(&(fam, *hash, *to_peer, *answerer, *offer_id));
        let ambiguous = match hist {
            None => false,
            // forwarded more than once to the same receiver, or by an earlier incarnation of the offerer
            Some((n, inc)) => *n > 1 || *inc != e.incarnation,
        };
        if ambiguous {
            AnswerExpectation::EitherForwardOrError(e.owner)
        } else if outstanding {
            AnswerExpectation::Forward(e.owner)
        } else {
            AnswerExpectation::ErrorToSender
        }
    }

    /// The answer was observed to be forwarded: the offer is used up
    pub fn consume(&mut self, fam: Fam, hash: &Hash20, answerer: &Hash20, to_peer: &Hash20, offer_id: &Hash20) {
        if let Some(t) = self.torrents.get_mut(&(fam, *hash)) {
            if let Some(e) = t.get_mut(to_peer) {
                e.expecting.remove(&(*answerer, *offer_id));
            }
        }
    }

    /// Closing a connection removes exactly the entries it created
    pub fn close(&mut self, conn: Conn) -> Vec<(Fam, Hash20, Hash20)> {
        let owned = self.owned_by(conn);
        for (fam, hash, pid) in owned.iter() {
            self.remove_entry(*fam, hash, pid);
        }
        owned
    }

    pub fn clean(&mut self, now: u64, allowed: &dyn Fn(&Hash20) -> bool) -> usize {
        let mut removed = 0;
        let keys: Vec<(Fam, Hash20)> = self.torrents.keys().copied().collect();
        for tk in keys {
            let t = self.torrents.get_mut(&tk).unwrap();
            for e in t.values_mut() {
                e.expecting.retain(|_, d| *d > now);
            }
            let before = t.len();
            t.retain(|_, e| e.deadline > now);
            removed += before - t.len();
            if t.is_empty() || !allowed(&tk.1) {
                self.torrents.remove(&tk);
            }
        }
        removed
    }

    pub fn num_torrents(&self, fam: Fam) -> usize {
        self.torrents.keys().filter(|k| k.0 == fam).count()
    }
}
