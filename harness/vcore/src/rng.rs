/// SplitMix64: all randomness of the monitors derives from VERIF_SEED through this
#[derive(Clone, Debug)]
pub struct SplitMix(pub u64);

impl SplitMix {
    pub fn new(seed: u64) -> Self {
        Self(seed.wrapping_mul(0x9E3779B97F4A7C15) ^ 0xD1B54A32D192ED03)
    }
    /// Independent stream derived from this one and a label
    pub fn fork(&self, label: u64) -> Self {
        let mut s = Self(self.0 ^ label.wrapping_mul(0xBF58476D1CE4E5B9));
        s.next();
        s.next();
        Self(s.next())
    }
    #[allow(clippy::should_implement_trait)]
    pub fn next(&mut self) -> u64 {
        self.0 = self.0.wrapping_add(0x9E3779B97F4A7C15);
        let mut z = self.0;
        z = (z ^ (z >> 30)).wrapping_mul(0xBF58476D1CE4E5B9);
        z = (z ^ (z >> 27)).wrapping_mul(0x94D049BB133111EB);
        z ^ (z >> 31)
    }
    /// Uniform in 0..n (n > 0)
    pub fn below(&mut self, n: u64) -> u64 {
        debug_assert!(n > 0);
        ((self.next() as u128 * n as u128) >> 64) as u64
    }
    pub fn usize(&mut self, n: usize) -> usize {
        self.below(n as u64) as usize
    }
    /// Uniform in lo..=hi
    pub fn range(&mut self, lo: u64, hi: u64) -> u64 {
        lo + self.below(hi - lo + 1)
    }
    pub fn chance(&mut self, num: u64, den: u64) -> bool {
        self.below(den) < num
    }
    pub fn pick<'a, T>(&mut self, items: &'a [T]) -> &'a T {
        &items[self.usize(items.len())]
    }
    pub fn bytes(&mut self, out: &mut [u8]) {
        for chunk in out.chunks_mut(8) {
            let v = self.next().to_le_bytes();
            chunk.copy_from_slice(&v[..chunk.len()]);
        }
    }
    pub fn vec(&mut self, len: usize) -> Vec<u8> {
        let mut v = vec![0u8; len];
        self.bytes(&mut v);
        v
    }
    pub fn arr20(&mut self) -> [u8; 20] {
        let mut a = [0u8; 20];
        self.bytes(&mut a);
        a
    }
    pub fn shuffle<T>(&mut self, items: &mut [T]) {
        for i in (1..items.len()).rev() {
            let j = self.usize(i + 1);
            items.swap(i, j);
        }
    }
}
