//! Loopback networking helpers for the live engines

use std::net::{Ipv4Addr, SocketAddr, TcpListener, UdpSocket};

/// A UDP port that was free a moment ago on 127.0.0.1 and [::]
pub fn free_udp_port() -> u16 {
    for _ in 0..50 {
        let s = UdpSocket::bind("127.0.0.1:0").expect("bind");
        let port = s.local_addr().unwrap().port();
        drop(s);
        if UdpSocket::bind(("::", port)).is_ok() {
            return port;
        }
    }
    panic!("no free udp port");
}

pub fn free_tcp_port() -> u16 {
    for _ in 0..50 {
        let s = TcpListener::bind("127.0.0.1:0").expect("bind");
        let port = s.local_addr().unwrap().port();
        drop(s);
        if TcpListener::bind(("::", port)).is_ok() {
            return port;
        }
    }
    panic!("no free tcp port");
}

/// Raw IPv4 UDP sender: lets the harness choose the UDP source port (incl. 0).
pub struct RawUdp4 {
    fd: i32,
}

impl RawUdp4 {
    pub fn new(bind_ip: Ipv4Addr) -> std::io::Result<Self> {
        unsafe {
            let fd = libc::socket(libc::AF_INET, libc::SOCK_RAW, libc::IPPROTO_UDP);
            if fd < 0 {
                return Err(std::io::Error::last_os_error());
            }
            let addr = libc::sockaddr_in { sin_family: libc::AF_INET as u16, sin_port: 0, sin_addr: libc::in_addr { s_addr: u32::from(bind_ip).to_be() }, sin_zero: [0; 8] };
            if libc::bind(fd, &addr as *const _ as *const libc::sockaddr, std::mem::size_of::<libc::sockaddr_in>() as u32) < 0 {
                let e = std::io::Error::last_os_error();
                libc::close(fd);
                return Err(e);
            }
            Ok(Self { fd })
        }
    }
    /// Send `payload` as a UDP datagram from (bound ip, src_port) to dst
    pub fn send(&self, src_port: u16, dst: (Ipv4Addr, u16), payload: &[u8]) -> std::io::Result<()> {
        let mut pkt = Vec::with_capacity(8 + payload.len());
        pkt.extend_from_slice(&src_port.to_be_bytes());
        pkt.extend_from_slice(&dst.1.to_be_bytes());
        pkt.extend_from_slice(&((8 + payload.len()) as u16).to_be_bytes());
        pkt.extend_from_slice(&0u16.to_be_bytes()); // checksum optional over IPv4
        pkt.extend_from_slice(payload);
        unsafe {
            let addr = libc::sockaddr_in { sin_family: libc::AF_INET as u16, sin_port: 0, sin_addr: libc::in_addr { s_addr: u32::from(dst.0).to_be() }, sin_zero: [0; 8] };
            let n = libc::sendto(self.fd, pkt.as_ptr() as *const libc::c_void, pkt.len(), 0, &addr as *const _ as *const libc::sockaddr, std::mem::size_of::<libc::sockaddr_in>() as u32);
            if n < 0 {
                return Err(std::io::Error::last_os_error());
            }
        }
        Ok(())
    }
}

impl Drop for RawUdp4 {
    fn drop(&mut self) {
        unsafe {
            libc::close(self.fd);
        }
    }
}

/// Wait until `cond` holds; false on timeout (callers map that to "inconclusive", never to a verdict)
pub fn wait_until(timeout_ms: u64, mut cond: impl FnMut() -> bool) -> bool {
    let t0 = std::time::Instant::now();
    loop {
        if cond() {
            return true;
        }
        if t0.elapsed().as_millis() as u64 > timeout_ms {
            return false;
        }
        std::thread::sleep(std::time::Duration::from_millis(2));
    }
}

pub fn v4(addr: &SocketAddr) -> bool {
    addr.is_ipv4()
}
