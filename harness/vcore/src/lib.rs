//! Shared machinery of the runtime monitors: PRNG, report/evidence writer,
//! reference models (oracles), scripted RNG, strict bencode codec,
//! linearizability checker, counting allocator, CLI parsing.

pub mod alloc;
pub mod args;
pub mod bencode;
pub mod json;
pub mod lin;
pub mod refudp;


pub mod model;
pub mod net;
pub mod report;
pub mod rng;
pub mod srng;
pub mod wsmodel;


pub use args::Args;
pub use report::{Report, Violation};
pub use rng::SplitMix;

pub fn hex(bytes: &[u8]) -> String {
    let mut s = String::with_capacity(bytes.len() * 2);
    for b in bytes {
        s.push_str(&format!("{:02x}", b));
    }
    s
}

pub fn unhex(s: &str) -> Vec<u8> {
    let s = s.as_bytes();
    let mut out = Vec::with_capacity(s.len() / 2);
    let val = |c: u8| -> u8 {
        match c {
            b'0'..=b'9' => c - b'0',
            b'a'..=b'f' => c - b'a' + 10,
            b'A'..=b'F' => c - b'A' + 10,
            _ => panic!("bad hex"),
        }
    };
    for pair in s.chunks(2) {
        out.push(val(pair[0]) * 16 + val(pair[1]));
    }
    out
}

/// FNV-1a 64 over bytes, used for "distinct" accounting
pub fn fnv(bytes: &[u8]) -> u64 {
    let mut h: u64 = 0xcbf29ce484222325;
    for b in bytes {
        h ^= *b as u64;
        h = h.wrapping_mul(0x100000001b3);
    }
    h
}

/// Opt-in stderr logger for the trackers' `log` output (VERIF_LOG=error|warn|info|debug); diagnostics only, never a verdict.
pub fn init_logger_from_env() {
    struct L;
    impl log::Log for L {
        fn enabled(&self, _: &log::Metadata) -> bool {
            true
        }
        fn log(&self, r: &log::Record) {
            eprintln!("[{} {}] {}", r.level(), r.target(), r.args());
        }
        fn flush(&self) {}
    }
    static LOGGER: L = L;
    if let Ok(v) = std::env::var("VERIF_LOG") {
        let lvl = match v.as_str() {
            "error" => log::LevelFilter::Error,
            "warn" => log::LevelFilter::Warn,
            "debug" => log::LevelFilter::Debug,
            _ => log::LevelFilter::Info,
        };
        if log::set_logger(&LOGGER).is_ok() {
            log::set_max_level(lvl);
        }
    }
}

/// Panic hook for engines that catch the panics of the code under test: silent by default (thousands of caught
/// panics would flood the logs), one line per panic with VERIF_PANIC_TRACE=1 (to find a panic that was NOT caught)
pub fn quiet_panics() {
    let trace = std::env::var("VERIF_PANIC_TRACE").is_ok();
    std::panic::set_hook(Box::new(move |info| {
        if trace {
            eprintln!("panic: {}", info);
        }
    }));
}
