//! Shared machinery of the runtime monitors: PRNG, report/evidence writer,
//! reference models (oracles), scripted RNG, strict bencode codec,
//! linearizability checker, counting allocator, CLI parsing.

pub mod alloc;
pub mod args;
pub mod bencode;
pub mod json;
pub mod lin;
pub mod refudp;


pub mod model;
pub mod net;
pub mod report;
pub mod rng;
pub mod srng;
pub mod wsmodel;


pub use args::Args;
pub use report::{Report, Violation};
pub use rng::SplitMix;

pub fn hex(bytes: &[u8]) -> String {
    let mut s = String::with_capacity(bytes.len() * 2);
    for b in bytes {
        s.push_str(&format!("{:02x}", b));
    }
    s
}

pub fn unhex(s: &str) -> Vec<u8> {
    let s = s.as_bytes();
    let mut out = Vec::with_capacity(s.len() / 2);
    let val = |c: u8| -> u8 {
        match c {
            b'0'..=b'9' => c - b'0',
            b'a'..=b'f' => c - b'a' + 10,
            b'A'..=b'F' => c - b'A' + 10,
            _ => panic!("bad hex"),
        }
    };
    for pair in s.chunks(2) {
        out.push(val(pair[0]) * 16 + val(pair[1]));
    }
    out
}

/// FNV-1a 64 over bytes, used for "distinct" accounting
pub fn fnv(bytes: &[u8]) -> u64 {
    let mut h: u64 = 0xcbf29ce484222325;
    for b in bytes {
        h ^= *b as u64;
        h = h.wrapping_mul(0x100000001b3);
    }
    h
}
