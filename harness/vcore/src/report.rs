use std::collections::{BTreeMap, BTreeSet};
use std::time::Instant;

use serde_json::{json, Value};

/// One refuting observation. `signature` identifies call site + input class
/// (used to match known findings); `replay` is a self-contained case.
#[derive(Clone, Debug)]
pub struct Violation {
    pub signature: String,
    pub clause: String,
    pub detail: String,
    pub replay: Value,
}

/// Result of one engine run; merged into the evidence file by the driver
pub struct Report {
    pub engine: String,
    pub started: Instant,
    pub evaluations: u64,
    pub distinct: BTreeSet<u64>,
    /// distinct non-trivial cases counted by child processes (their own hash sets)
    pub distinct_extra: u64,
    pub rule: String,
    pub samples: Vec<Value>,
    pub max_samples: usize,
    pub violations: BTreeMap<String, (Violation, u64)>,
    pub inconclusive: Vec<String>,
    pub counters: BTreeMap<String, u64>,
    pub notes: Vec<String>,
    pub extra: BTreeMap<String, Value>,
}

impl Report {
    pub fn new(engine: &str, rule: &str) -> Self {
        Self {
            engine: engine.to_string(),
            started: Instant::now(),
            evaluations: 0,
            distinct: BTreeSet::new(),
            distinct_extra: 0,
            rule: rule.to_string(),
            samples: Vec::new(),
            max_samples: 4,
            violations: BTreeMap::new(),
            inconclusive: Vec::new(),
            counters: BTreeMap::new(),
            notes: Vec::new(),
            extra: BTreeMap::new(),
        }
    }
    pub fn eval(&mut self) {
        self.evaluations += 1;
    }
    pub fn evals(&mut self, n: u64) {
        self.evaluations += n;
    }
    /// Record a distinct non-trivial case by its hash
    pub fn nontrivial(&mut self, hash: u64) {
        // bounded: beyond 2M distinct hashes we stop storing (count stays a lower bound)
        if self.distinct.len() < 2_000_000 {
            self.distinct.insert(hash);
        }
    }
    pub fn sample(&mut self, v: Value) {
        if self.samples.len() < self.max_samples {
            self.samples.push(v);
        }
    }
    pub fn count(&mut self, k: &str) {
        *self.counters.entry(k.to_string()).or_insert(0) += 1;
    }
    pub fn add(&mut self, k: &str, n: u64) {
        *self.counters.entry(k.to_string()).or_insert(0) += n;
    }
    pub fn counter(&self, k: &str) -> u64 {
        self.counters.get(k).copied().unwrap_or(0)
    }
    pub fn note(&mut self, s: impl Into<String>) {
        self.notes.push(s.into());
    }
    pub fn inconclusive(&mut self, s: impl Into<String>) {
        let s = s.into();
        if self.inconclusive.len() < 50 {
            self.inconclusive.push(s);
        }
    }
    pub fn violation(&mut self, signature: &str, clause: &str, detail: impl Into<String>, replay: Value) {
        if let Some(e) = self.violations.get_mut(signature) {
            e.1 += 1;
            return;
        }
        if self.violations.len() >= 40 {
            self.count("violations_dropped_over_cap");
            return;
        }
        self.violations.insert(
            signature.to_string(),
            (
                Violation {
                    signature: signature.to_string(),
                    clause: clause.to_string(),
                    detail: detail.into(),
                    replay,
                },
                1,
            ),
        );
    }
    pub fn num_violations(&self) -> usize {
        self.violations.len()
    }
    /// total number of refuting observations (a signature seen n times counts n times)
    pub fn violation_occurrences(&self) -> u64 {
        self.violations.values().map(|v| v.1).sum()
    }
    pub fn to_json(&self) -> Value {
        let violations: Vec<Value> = self
            .violations
            .values()
            .map(|(v, n)| {
                json!({
                    "signature": v.signature,
                    "clause": v.clause,
                    "detail": v.detail,
                    "occurrences": n,
                    "replay": v.replay,
                })
            })
            .collect();
        json!({
            "engine": self.engine,
            "evaluations": self.evaluations,
            "distinct_nontrivial": self.distinct.len() as u64 + self.distinct_extra,
            "rule": self.rule,
            "samples": self.samples,
            "violations": violations,
            "inconclusive": self.inconclusive,
            "counters": self.counters,
            "notes": self.notes,
            "extra": self.extra,
            "wall_s": self.started.elapsed().as_secs_f64(),
        })
    }
    /// Write the result file and exit with the engine-level status
    /// (0 = nothing refuting seen, 1 = violations, 2 = inconclusive only)
    pub fn finish(&self, out: &str) -> ! {
        let text = serde_json::to_string_pretty(&self.to_json()).unwrap();
        if out == "/dev/stdout" || out == "-" {
            println!("{}", text);
        } else {
            std::fs::write(out, text).expect("write report");
        }
        let code = if !self.violations.is_empty() {
            1
        } else if !self.inconclusive.is_empty() {
            2
        } else {
            0
        };
        // skip destructors: trackers started in-process never stop
        if cfg!(miri) {
            std::process::exit(code)
        }
        unsafe { libc::_exit(code) }
    }
}
