//! Linearizability checker for one swarm (one (family, info hash) key).
//!
//! A tracker is a map of independent swarms, so a history is linearizable iff
//! every key's sub-history is (P-compositionality). Scrapes of n hashes and
//! cleaning passes are decomposed by the caller into n single-key operations
//! sharing one call/return interval. Search: Wing-Gong style DFS over the
//! operations that may go first, memoised on (linearised set, state hash),
//! with a step budget (exhaustion = inconclusive, never a verdict).

use std::collections::{BTreeMap, BTreeSet, HashSet};

use crate::model::{check_peer_list, PeerKey};

#[derive(Clone, Debug)]
pub enum LKind {
    Announce {
        key: PeerKey,
        stopped: bool,
        seeder: bool,
        deadline: u64,
        /// reply: seeders, leechers (excluding announcer), returned peers, limit
        seeders: usize,
        leechers: usize,
        peers: Vec<PeerKey>,
        limit: usize,
    },
    /// scrape of this key: counts including everybody
    Read { seeders: usize, leechers: usize },
    /// the part of a cleaning pass that concerns this key
    Expire { now: u64 },
}

#[derive(Clone, Debug)]
pub struct LOp {
    pub actor: usize,
    pub call: u64,
    /// u64::MAX = never returned (stays open until the end of the history)
    pub ret: u64,
    pub kind: LKind,
}

type State = BTreeMap<PeerKey, (bool, u64)>;

fn state_hash(s: &State) -> u64 {
    let mut h: u64 = 0xcbf29ce484222325;
    for (k, (seeder, d)) in s {
        let txt = format!("{:?}{}{}", k, seeder, d);
        for b in txt.as_bytes() {
            h ^= *b as u64;
            h = h.wrapping_mul(0x100000001b3);
        }
    }
    h
}

/// Apply `op` to `state` if its recorded result is consistent; None if not.
fn apply(state: &State, op: &LKind) -> Option<State> {
    match op {
        LKind::Announce { key, stopped, seeder, deadline, seeders, leechers, peers, limit } => {
            let mut s = state.clone();
            s.remove(key);
            let ms = s.values().filter(|e| e.0).count();
            let ml = s.len() - ms;
            if ms != *seeders || ml != *leechers {
                return None;
            }
            let others: BTreeSet<PeerKey> = s.keys().copied().collect();
            if check_peer_list(peers, &others, key, *limit, false).is_err() {
                return None;
            }
            if !*stopped {
                s.insert(*key, (*seeder, *deadline));
            }
            Some(s)
        }
        LKind::Read { seeders, leechers } => {
            let ms = state.values().filter(|e| e.0).count();
            if ms == *seeders && state.len() - ms == *leechers {
                Some(state.clone())
            } else {
                None
            }
        }
        LKind::Expire { now } => {
            let mut s = state.clone();
            s.retain(|_, e| e.1 > *now);
            Some(s)
        }
    }
}

#[derive(Debug, PartialEq, Eq)]
pub enum Verdict {
    Linearizable,
    NotLinearizable,
    BudgetExhausted,
}

pub struct Outcome {
    pub verdict: Verdict,
    pub steps: u64,
    /// a witness order (indices into the history) when linearizable
    pub order: Vec<usize>,
}

/// `initial`: state of the key before the history (from the sequential set-up).
/// `final_members`: if given, the state after all operations must have exactly these
/// members with these seeder flags (quiescent read-out).
pub fn check(initial: &State, ops: &[LOp], final_state: Option<&BTreeMap<PeerKey, bool>>, budget: u64) -> Outcome {
    let n = ops.len();
    assert!(n <= 120, "keep per-key histories small");
    let mut steps = 0u64;
    let mut seen: HashSet<(u128, u64)> = HashSet::new();
    let mut order = Vec::new();
    let ok = dfs(initial, ops, 0u128, &mut seen, &mut steps, budget, final_state, &mut order);
    Outcome {
        verdict: match ok {
            Some(true) => Verdict::Linearizable,
            Some(false) => Verdict::NotLinearizable,
            None => Verdict::BudgetExhausted,
        },
        steps,
        order,
    }
}

#[allow(clippy::too_many_arguments)]
fn dfs(state: &State, ops: &[LOp], done: u128, seen: &mut HashSet<(u128, u64)>, steps: &mut u64, budget: u64, final_state: Option<&BTreeMap<PeerKey, bool>>, order: &mut Vec<usize>) -> Option<bool> {
    let n = ops.len();
    if done.count_ones() as usize == n {
        return Some(match final_state {
            None => true,
            Some(f) => {
                let got: BTreeMap<PeerKey, bool> = state.iter().map(|(k, v)| (*k, v.0)).collect();
                got == *f
            }
        });
    }
    *steps += 1;
    if *steps > budget {
        return None;
    }
    if !seen.insert((done, state_hash(state))) {
        return Some(false);
    }
    // an op may go next iff no other pending op returned before it was called
    let min_ret = (0..n).filter(|i| done & (1u128 << i) == 0).map(|i| ops[i].ret).min().unwrap();
    let mut exhausted = false;
    for i in 0..n {
        if done & (1u128 << i) != 0 || ops[i].call > min_ret {
            continue;
        }
        if let Some(next) = apply(state, &ops[i].kind) {
            order.push(i);
            match dfs(&next, ops, done | (1u128 << i), seen, steps, budget, final_state, order) {
                Some(true) => return Some(true),
                Some(false) => {}
                None => exhausted = true,
            }
            order.pop();
        }
    }
    if exhausted {
        None
    } else {
        Some(false)
    }
}

pub fn new_state() -> State {
    BTreeMap::new()
}
