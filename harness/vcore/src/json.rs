//! Small independent JSON reader / string writer (no serde), used to look at
//! what the trackers emit without going through the crates under test.

#[derive(Clone, Debug, PartialEq)]
pub enum J {
    Null,
    Bool(bool),
    Num(String),
    Str(String),
    Arr(Vec<J>),
    Obj(Vec<(String, J)>),
}

impl J {
    pub fn get(&self, k: &str) -> Option<&J> {
        match self {
            J::Obj(v) => v.iter().find(|(kk, _)| kk == k).map(|(_, v)| v),
            _ => None,
        }
    }
    pub fn str(&self) -> Option<&str> {
        match self {
            J::Str(s) => Some(s),
            _ => None,
        }
    }
    pub fn u64(&self) -> Option<u64> {
        match self {
            J::Num(s) => s.parse().ok(),
            _ => None,
        }
    }
    pub fn arr(&self) -> Option<&Vec<J>> {
        match self {
            J::Arr(a) => Some(a),
            _ => None,
        }
    }
    pub fn obj(&self) -> Option<&Vec<(String, J)>> {
        match self {
            J::Obj(a) => Some(a),
            _ => None,
        }
    }
    /// 20-byte identifier: exactly 20 characters, each <= U+00FF
    pub fn id20(&self) -> Option<[u8; 20]> {
        let s = self.str()?;
        let v: Vec<u8> = s.chars().map(|c| if (c as u32) <= 0xff { Some(c as u32 as u8) } else { None }).collect::<Option<Vec<u8>>>()?;
        v.try_into().ok()
    }
}

struct P<'a> {
    b: &'a [u8],
    i: usize,
}

impl<'a> P<'a> {
    fn ws(&mut self) {
        while self.i < self.b.len() && matches!(self.b[self.i], b' ' | b'\t' | b'\n' | b'\r') {
            self.i += 1;
        }
    }
    fn lit(&mut self, s: &str) -> Result<(), String> {
        if self.b[self.i..].starts_with(s.as_bytes()) {
            self.i += s.len();
            Ok(())
        } else {
            Err(format!("bad literal at {}", self.i))
        }
    }
    fn hex4(&mut self) -> Result<u32, String> {
        if self.i + 4 > self.b.len() {
            return Err("short \\u escape".into());
        }
        let s = std::str::from_utf8(&self.b[self.i..self.i + 4]).map_err(|_| "bad \\u escape".to_string())?;
        let v = u32::from_str_radix(s, 16).map_err(|_| "bad \\u escape".to_string())?;
        self.i += 4;
        Ok(v)
    }
    fn string(&mut self) -> Result<String, String> {
        self.i += 1; // opening quote
        let mut out = String::new();
        loop {
            if self.i >= self.b.len() {
                return Err("unterminated string".into());
            }
            let c = self.b[self.i];
            match c {
                b'"' => {
                    self.i += 1;
                    return Ok(out);
                }
                b'\\' => {
                    self.i += 1;
                    if self.i >= self.b.len() {
                        return Err("unterminated escape".into());
                    }
                    let e = self.b[self.i];
                    self.i += 1;
                    match e {
                        b'"' => out.push('"'),
                        b'\\' => out.push('\\'),
                        b'/' => out.push('/'),
                        b'b' => out.push('\u{8}'),
                        b'f' => out.push('\u{c}'),
                        b'n' => out.push('\n'),
                        b'r' => out.push('\r'),
                        b't' => out.push('\t'),
                        b'u' => {
                            let hi = self.hex4()?;
                            if (0xD800..0xDC00).contains(&hi) {
                                if self.b[self.i..].starts_with(b"\\u") {
                                    self.i += 2;
                                    let lo = self.hex4()?;
                                    if !(0xDC00..0xE000).contains(&lo) {
                                        return Err("bad low surrogate".into());
                                    }
                                    let cp = 0x10000 + ((hi - 0xD800) << 10) + (lo - 0xDC00);
                                    out.push(char::from_u32(cp).ok_or("bad code point")?);
                                } else {
                                    return Err("lone high surrogate".into());
                                }
                            } else {
                                out.push(char::from_u32(hi).ok_or("lone low surrogate")?);
                            }
                        }
                        _ => return Err(format!("bad escape \\{}", e as char)),
                    }
                }
                0..=0x1f => return Err("raw control character in string".into()),
                _ => {
                    // copy one UTF-8 scalar
                    let len = match c {
                        0x00..=0x7f => 1,
                        0xc0..=0xdf => 2,
                        0xe0..=0xef => 3,
                        0xf0..=0xf7 => 4,
                        _ => return Err("invalid utf-8".into()),
                    };
                    if self.i + len > self.b.len() {
                        return Err("truncated utf-8".into());
                    }
                    let ch = std::str::from_utf8(&self.b[self.i..self.i + len]).map_err(|_| "invalid utf-8".to_string())?.chars().next().ok_or("invalid utf-8")?;
                    out.push(ch);
                    self.i += ch.len_utf8();
                }
            }
        }
    }
    fn value(&mut self, depth: usize) -> Result<J, String> {
        if depth > 100 {
            return Err("too deep".into());
        }
        self.ws();
        if self.i >= self.b.len() {
            return Err("unexpected end".into());
        }
        match self.b[self.i] {
            b'n' => self.lit("null").map(|_| J::Null),
            b't' => self.lit("true").map(|_| J::Bool(true)),
            b'f' => self.lit("false").map(|_| J::Bool(false)),
            b'"' => self.string().map(J::Str),
            b'[' => {
                self.i += 1;
                let mut v = Vec::new();
                self.ws();
                if self.i < self.b.len() && self.b[self.i] == b']' {
                    self.i += 1;
                    return Ok(J::Arr(v));
                }
                loop {
                    v.push(self.value(depth + 1)?);
                    self.ws();
                    match self.b.get(self.i) {
                        Some(b',') => self.i += 1,
                        Some(b']') => {
                            self.i += 1;
                            return Ok(J::Arr(v));
                        }
                        _ => return Err(format!("expected , or ] at {}", self.i)),
                    }
                }
            }
            b'{' => {
                self.i += 1;
                let mut v = Vec::new();
                self.ws();
                if self.i < self.b.len() && self.b[self.i] == b'}' {
                    self.i += 1;
                    return Ok(J::Obj(v));
                }
                loop {
                    self.ws();
                    if self.b.get(self.i) != Some(&b'"') {
                        return Err(format!("expected key at {}", self.i));
                    }
                    let k = self.string()?;
                    self.ws();
                    if self.b.get(self.i) != Some(&b':') {
                        return Err(format!("expected : at {}", self.i));
                    }
                    self.i += 1;
                    let val = self.value(depth + 1)?;
                    v.push((k, val));
                    self.ws();
                    match self.b.get(self.i) {
                        Some(b',') => self.i += 1,
                        Some(b'}') => {
                            self.i += 1;
                            return Ok(J::Obj(v));
                        }
                        _ => return Err(format!("expected , or }} at {}", self.i)),
                    }
                }
            }
            b'-' | b'0'..=b'9' => {
                let s = self.i;
                while self.i < self.b.len() && matches!(self.b[self.i], b'-' | b'+' | b'.' | b'e' | b'E' | b'0'..=b'9') {
                    self.i += 1;
                }
                Ok(J::Num(String::from_utf8_lossy(&self.b[s..self.i]).into_owned()))
            }
            c => Err(format!("unexpected byte {:#x} at {}", c, self.i)),
        }
    }
}

pub fn parse(bytes: &[u8]) -> Result<J, String> {
    let mut p = P { b: bytes, i: 0 };
    let v = p.value(0)?;
    p.ws();
    if p.i != bytes.len() {
        return Err(format!("trailing bytes at {}", p.i));
    }
    Ok(v)
}

/// JSON string literal for arbitrary text. `escape_non_ascii`: write every
/// non-ASCII scalar as \uXXXX (surrogate pairs for astral ones).
pub fn quote(s: &str, escape_non_ascii: bool) -> String {
    let mut o = String::from("\"");
    for c in s.chars() {
        match c {
            '"' => o.push_str("\\\""),
            '\\' => o.push_str("\\\\"),
            '\n' => o.push_str("\\n"),
            '\r' => o.push_str("\\r"),
            '\t' => o.push_str("\\t"),
            c if (c as u32) < 0x20 => o.push_str(&format!("\\u{:04x}", c as u32)),
            c if escape_non_ascii && !c.is_ascii() => {
                let mut buf = [0u16; 2];
                for u in c.encode_utf16(&mut buf) {
                    o.push_str(&format!("\\u{:04x}", u));
                }
            }
            c => o.push(c),
        }
    }
    o.push('"');
    o
}

/// 20 bytes as the WebTorrent "binary string": one character U+00xx per byte
pub fn id_string(id: &[u8; 20]) -> String {
    id.iter().map(|b| *b as char).collect()
}
