//! Reference tracker for UDP / HTTP swarm bookkeeping, written from the
//! property statements (C01, C07, C10, C11, C20), not from the code.
//! No representation detail (inline/heap maps, shards, workers) appears here.

use std::collections::{BTreeMap, BTreeSet};
use std::net::IpAddr;

pub type Hash20 = [u8; 20];

#[derive(Clone, Copy, Debug, PartialEq, Eq, PartialOrd, Ord, Hash)]
pub enum Fam {
    V4,
    V6,
}

impl Fam {
    pub fn of(ip: &IpAddr) -> Fam {
        match ip {
            IpAddr::V4(_) => Fam::V4,
            IpAddr::V6(_) => Fam::V6,
        }
    }
}

/// (canonical source ip, announced port)
#[derive(Clone, Copy, Debug, PartialEq, Eq, PartialOrd, Ord, Hash)]
pub struct PeerKey {
    pub ip: IpAddr,
    pub port: u16,
}

#[derive(Clone, Debug, PartialEq, Eq)]
pub struct Entry {
    pub seeder: bool,
    /// first instant (whole seconds) at which the entry is no longer valid
    pub deadline: u64,
    pub peer_id: Hash20,
}

#[derive(Clone, Debug, Default)]
pub struct Model {
    pub torrents: BTreeMap<(Fam, Hash20), BTreeMap<PeerKey, Entry>>,
}

#[derive(Clone, Debug, PartialEq, Eq)]
pub struct AnnounceView {
    /// seeders / leechers not counting the announcer
    pub seeders: usize,
    pub leechers: usize,
    /// every stored member other than the announcer, before the announce takes effect
    pub others: BTreeSet<PeerKey>,
    /// entry replaced / removed by this announce
    pub previous: Option<Entry>,
}

impl Model {
    pub fn new() -> Self {
        Self::default()
    }

    /// Latest announce wins; stopped removes; counts exclude the announcer.
    pub fn announce(
        &mut self,
        hash: Hash20,
        key: PeerKey,
        stopped: bool,
        seeder: bool,
        deadline: u64,
        peer_id: Hash20,
    ) -> AnnounceView {
        let fam = Fam::of(&key.ip);
        let swarm = self.torrents.entry((fam, hash)).or_default();
        let previous = swarm.remove(&key);
        let seeders = swarm.values().filter(|e| e.seeder).count();
        let leechers = swarm.len() - seeders;
        let others = swarm.keys().copied().collect();
        if !stopped {
            swarm.insert(
                key,
                Entry {
                    seeder,
                    deadline,
                    peer_id,
                },
            );
        }
        if swarm.is_empty() {
            // indistinguishable from never seen
            self.torrents.remove(&(fam, hash));
        }
        AnnounceView {
            seeders,
            leechers,
            others,
            previous,
        }
    }

    /// (seeders, leechers) including every stored peer; zeros for unknown
    pub fn scrape(&self, fam: Fam, hash: &Hash20) -> (usize, usize) {
        match self.torrents.get(&(fam, *hash)) {
            Some(swarm) => {
                let s = swarm.values().filter(|e| e.seeder).count();
                (s, swarm.len() - s)
            }
            None => (0, 0),
        }
    }

    pub fn members(&self, fam: Fam, hash: &Hash20) -> BTreeSet<PeerKey> {
        self.torrents
            .get(&(fam, *hash))
            .map(|s| s.keys().copied().collect())
            .unwrap_or_default()
    }

    pub fn size(&self, fam: Fam, hash: &Hash20) -> usize {
        self.torrents.get(&(fam, *hash)).map(|s| s.len()).unwrap_or(0)
    }

    /// Cleaning pass at `now`: entries with deadline <= now go; torrents that
    /// are empty or forbidden go. Returns removed entries (for tally checks).
    pub fn clean(&mut self, now: u64, allowed: &dyn Fn(&Hash20) -> bool) -> Vec<(Fam, Hash20, PeerKey, Entry)> {
        let mut removed = Vec::new();
        let keys: Vec<(Fam, Hash20)> = self.torrents.keys().copied().collect();
        for tk in keys {
            let swarm = self.torrents.get_mut(&tk).unwrap();
            let expired: Vec<PeerKey> = swarm
                .iter()
                .filter(|(_, e)| e.deadline <= now)
                .map(|(k, _)| *k)
                .collect();
            for k in expired {
                let e = swarm.remove(&k).unwrap();
                removed.push((tk.0, tk.1, k, e));
            }
            if swarm.is_empty() || !allowed(&tk.1) {
                self.torrents.remove(&tk);
            }
        }
        removed
    }

    /// (torrents with at least one peer, peers) of one family
    pub fn totals(&self, fam: Fam) -> (usize, usize) {
        let mut t = 0;
        let mut p = 0;
        for ((f, _), swarm) in self.torrents.iter() {
            if *f == fam && !swarm.is_empty() {
                t += 1;
                p += swarm.len();
            }
        }
        (t, p)
    }

    /// number of stored peers carrying each peer id
    pub fn peer_id_tally(&self) -> BTreeMap<Hash20, usize> {
        let mut m = BTreeMap::new();
        for swarm in self.torrents.values() {
            for e in swarm.values() {
                *m.entry(e.peer_id).or_insert(0) += 1;
            }
        }
        m
    }
}

/// The predicate of C02 for udp / http announce replies.
///
/// `others`: stored members of the same torrent + family other than the requester.
/// `limit`: min(requested, configured max) with non-positive/absent = configured max.
/// Returns Err(description) if the returned list violates the statement.
pub fn check_peer_list(
    returned: &[PeerKey],
    others: &BTreeSet<PeerKey>,
    requester: &PeerKey,
    limit: usize,
    exact_when_over: bool,
) -> Result<(), String> {
    let mut seen = BTreeSet::new();
    for p in returned {
        if p == requester {
            return Err(format!("requester {:?} returned to itself", p));
        }
        if !others.contains(p) {
            return Err(format!("returned peer {:?} is not a stored member of this torrent/family", p));
        }
        if !seen.insert(*p) {
            return Err(format!("peer {:?} returned twice", p));
        }
    }
    if returned.len() > limit {
        return Err(format!("{} peers returned, limit {}", returned.len(), limit));
    }
    if others.len() <= limit {
        if returned.len() != others.len() {
            return Err(format!(
                "{} other members <= limit {} but only {} returned",
                others.len(),
                limit,
                returned.len()
            ));
        }
    } else if exact_when_over {
        if returned.len() != limit {
            return Err(format!("{} other members > limit {}: {} returned, expected exactly limit", others.len(), limit, returned.len()));
        }
    } else if returned.len() + 1 < limit {
        return Err(format!(
            "{} other members > limit {}: {} returned, expected at least limit-1",
            others.len(),
            limit,
            returned.len()
        ));
    }
    Ok(())
}
