//! Scripted RNG: an `impl rand::Rng` that replays a script, so that the
//! `random_range` calls in the peer selection code land on chosen offsets.
//!
//! rand 0.10 samples a `usize` range that fits in 32 bits from a single
//! `next_u32` with widening multiply (+ rejection zone). Feeding
//! `ceil(k * 2^32 / r)` yields exactly `k` for every k < r; `self_check`
//! verifies that at start-up so a rand upgrade cannot silently break it.

use std::convert::Infallible;

use rand::rand_core::TryRng;
use rand::RngExt;

pub struct Scripted {
    pub script: Vec<u32>,
    pub pos: usize,
    pub calls_u32: usize,
    pub calls_u64: usize,
    pub overrun: bool,
}

impl Scripted {
    pub fn new(script: Vec<u32>) -> Self {
        Self {
            script,
            pos: 0,
            calls_u32: 0,
            calls_u64: 0,
            overrun: false,
        }
    }
    fn take(&mut self) -> u32 {
        if self.pos < self.script.len() {
            let v = self.script[self.pos];
            self.pos += 1;
            v
        } else {
            self.overrun = true;
            0
        }
    }
}

impl TryRng for Scripted {
    type Error = Infallible;
    fn try_next_u32(&mut self) -> Result<u32, Infallible> {
        self.calls_u32 += 1;
        Ok(self.take())
    }
    fn try_next_u64(&mut self) -> Result<u64, Infallible> {
        self.calls_u64 += 1;
        let lo = self.take() as u64;
        Ok((lo << 32) | lo)
    }
    fn try_fill_bytes(&mut self, dst: &mut [u8]) -> Result<(), Infallible> {
        for chunk in dst.chunks_mut(4) {
            let v = self.take().to_le_bytes();
            chunk.copy_from_slice(&v[..chunk.len()]);
        }
        Ok(())
    }
}

/// Value to feed so that `random_range(0..r)` returns k
pub fn value_for(k: u64, r: u64) -> u32 {
    debug_assert!(k < r && r <= u32::MAX as u64);
    let v = (k * (1u64 << 32)).div_ceil(r);
    v as u32
}

/// Check that scripting works with the linked rand version for ranges 1..=max_r.
/// Returns the number of (k, r) pairs verified, or an error text.
pub fn self_check(max_r: u64) -> Result<u64, String> {
    let mut n = 0;
    for r in 1..=max_r {
        for k in 0..r {
            let mut s = Scripted::new(vec![value_for(k, r)]);
            let got: usize = s.random_range(0..(r as usize));
            if got as u64 != k || s.overrun || s.pos != 1 {
                return Err(format!(
                    "scripted rng self-check failed: r={} k={} got={} consumed={} overrun={}",
                    r, k, got, s.pos, s.overrun
                ));
            }
            // with an offset base as used for the second half
            let base = 17usize;
            let mut s = Scripted::new(vec![value_for(k, r)]);
            let got: usize = s.random_range(base..(base + r as usize));
            if got != base + k as usize || s.overrun {
                return Err(format!("scripted rng self-check (offset base) failed: r={} k={} got={}", r, k, got));
            }
            n += 1;
        }
    }
    Ok(n)
}
