//! Counting global allocator: brackets a call and reports the peak of live
//! bytes allocated during it (C12: allocation bounded by a multiple of input length).

use std::alloc::{GlobalAlloc, Layout, System};
use std::sync::atomic::{AtomicBool, AtomicUsize, Ordering};

pub struct Counting;

static LIVE: AtomicUsize = AtomicUsize::new(0);
static PEAK: AtomicUsize = AtomicUsize::new(0);
static TOTAL: AtomicUsize = AtomicUsize::new(0);
static LARGEST: AtomicUsize = AtomicUsize::new(0);
static ENABLED: AtomicBool = AtomicBool::new(false);

unsafe impl GlobalAlloc for Counting {
    unsafe fn alloc(&self, layout: Layout) -> *mut u8 {
        let p = System.alloc(layout);
        if !p.is_null() && ENABLED.load(Ordering::Relaxed) {
            on_alloc(layout.size());
        }
        p
    }
    unsafe fn dealloc(&self, ptr: *mut u8, layout: Layout) {
        System.dealloc(ptr, layout);
        if ENABLED.load(Ordering::Relaxed) {
            on_free(layout.size());
        }
    }
    unsafe fn alloc_zeroed(&self, layout: Layout) -> *mut u8 {
        let p = System.alloc_zeroed(layout);
        if !p.is_null() && ENABLED.load(Ordering::Relaxed) {
            on_alloc(layout.size());
        }
        p
    }
    unsafe fn realloc(&self, ptr: *mut u8, layout: Layout, new_size: usize) -> *mut u8 {
        let p = System.realloc(ptr, layout, new_size);
        if !p.is_null() && ENABLED.load(Ordering::Relaxed) {
            on_free(layout.size());
            on_alloc(new_size);
        }
        p
    }
}

fn on_alloc(size: usize) {
    TOTAL.fetch_add(size, Ordering::Relaxed);
    LARGEST.fetch_max(size, Ordering::Relaxed);
    let live = LIVE.fetch_add(size, Ordering::Relaxed) + size;
    PEAK.fetch_max(live, Ordering::Relaxed);
}

fn on_free(size: usize) {
    // saturating: frees of blocks allocated before `begin` must not wrap
    let mut cur = LIVE.load(Ordering::Relaxed);
    loop {
        let new = cur.saturating_sub(size);
        match LIVE.compare_exchange_weak(cur, new, Ordering::Relaxed, Ordering::Relaxed) {
            Ok(_) => break,
            Err(c) => cur = c,
        }
    }
}

#[derive(Clone, Copy, Debug, Default)]
pub struct Usage {
    pub peak: usize,
    pub total: usize,
    pub largest: usize,
}

/// Start measuring (single measuring thread at a time)
pub fn begin() {
    LIVE.store(0, Ordering::SeqCst);
    PEAK.store(0, Ordering::SeqCst);
    TOTAL.store(0, Ordering::SeqCst);
    LARGEST.store(0, Ordering::SeqCst);
    ENABLED.store(true, Ordering::SeqCst);
}

pub fn end() -> Usage {
    ENABLED.store(false, Ordering::SeqCst);
    Usage {
        peak: PEAK.load(Ordering::SeqCst),
        total: TOTAL.load(Ordering::SeqCst),
        largest: LARGEST.load(Ordering::SeqCst),
    }
}
