use std::collections::BTreeMap;

/// `--key value` command line of every engine binary.
///
/// Common keys: --seed N, --tier quick|thorough, --out FILE, --replay FILE,
/// --property Cxx, plus engine-specific ones.
#[derive(Clone, Debug, Default)]
pub struct Args {
    pub map: BTreeMap<String, String>,
    pub free: Vec<String>,
}

impl Args {
    pub fn parse() -> Self {
        Self::from_iter(std::env::args().skip(1))
    }
    pub fn from_iter(it: impl Iterator<Item = String>) -> Self {
        let mut map = BTreeMap::new();
        let mut free = Vec::new();
        let mut it = it.peekable();
        while let Some(a) = it.next() {
            if let Some(k) = a.strip_prefix("--") {
                if let Some((k, v)) = k.split_once('=') {
                    map.insert(k.to_string(), v.to_string());
                } else if it.peek().map(|n| !n.starts_with("--")).unwrap_or(false) {
                    map.insert(k.to_string(), it.next().unwrap());
                } else {
                    map.insert(k.to_string(), "1".to_string());
                }
            } else {
                free.push(a);
            }
        }
        Self { map, free }
    }
    pub fn get(&self, k: &str) -> Option<&str> {
        self.map.get(k).map(|s| s.as_str())
    }
    pub fn str(&self, k: &str, d: &str) -> String {
        self.get(k).unwrap_or(d).to_string()
    }
    pub fn u64(&self, k: &str, d: u64) -> u64 {
        self.get(k).map(|v| v.parse().expect("numeric arg")).unwrap_or(d)
    }
    pub fn usize(&self, k: &str, d: usize) -> usize {
        self.u64(k, d as u64) as usize
    }
    pub fn flag(&self, k: &str) -> bool {
        self.map.contains_key(k)
    }
    pub fn seed(&self) -> u64 {
        self.u64("seed", 1)
    }
    pub fn thorough(&self) -> bool {
        self.get("tier") == Some("thorough")
    }
    pub fn out(&self) -> String {
        self.str("out", "/dev/stdout")
    }
    pub fn property(&self) -> String {
        self.str("property", "")
    }
}
