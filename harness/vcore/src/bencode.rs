//! Independent bencode encoder and *strict* decoder (canonical form only:
//! sorted unique dictionary keys, no leading zeros, no "-0", no trailing bytes).

#[derive(Clone, Debug, PartialEq, Eq)]
pub enum B {
    Int(i128),
    Bytes(Vec<u8>),
    List(Vec<B>),
    /// key order as given; `encode` sorts, `decode` demands sorted input
    Dict(Vec<(Vec<u8>, B)>),
}

impl B {
    pub fn get(&self, key: &[u8]) -> Option<&B> {
        match self {
            B::Dict(v) => v.iter().find(|(k, _)| k == key).map(|(_, b)| b),
            _ => None,
        }
    }
    pub fn int(&self) -> Option<i128> {
        match self {
            B::Int(i) => Some(*i),
            _ => None,
        }
    }
    pub fn bytes(&self) -> Option<&[u8]> {
        match self {
            B::Bytes(b) => Some(b),
            _ => None,
        }
    }
    pub fn dict(&self) -> Option<&Vec<(Vec<u8>, B)>> {
        match self {
            B::Dict(d) => Some(d),
            _ => None,
        }
    }
}

pub fn encode(b: &B, out: &mut Vec<u8>) {
    match b {
        B::Int(i) => {
            out.push(b'i');
            out.extend_from_slice(i.to_string().as_bytes());
            out.push(b'e');
        }
        B::Bytes(v) => {
            out.extend_from_slice(v.len().to_string().as_bytes());
            out.push(b':');
            out.extend_from_slice(v);
        }
        B::List(l) => {
            out.push(b'l');
            for x in l {
                encode(x, out);
            }
            out.push(b'e');
        }
        B::Dict(d) => {
            let mut items: Vec<&(Vec<u8>, B)> = d.iter().collect();
            items.sort_by(|a, b| a.0.cmp(&b.0));
            out.push(b'd');
            for (k, v) in items {
                out.extend_from_slice(k.len().to_string().as_bytes());
                out.push(b':');
                out.extend_from_slice(k);
                encode(v, out);
            }
            out.push(b'e');
        }
    }
}

pub fn to_vec(b: &B) -> Vec<u8> {
    let mut v = Vec::new();
    encode(b, &mut v);
    v
}

fn parse_len(input: &[u8], pos: &mut usize) -> Result<usize, String> {
    let start = *pos;
    while *pos < input.len() && input[*pos].is_ascii_digit() {
        *pos += 1;
    }
    if *pos == start {
        return Err(format!("expected digits at {}", start));
    }
    if input[start] == b'0' && *pos - start > 1 {
        return Err(format!("leading zero in length at {}", start));
    }
    let s = std::str::from_utf8(&input[start..*pos]).unwrap();
    let n: usize = s.parse().map_err(|_| format!("length overflow at {}", start))?;
    if *pos >= input.len() || input[*pos] != b':' {
        return Err(format!("expected ':' at {}", *pos));
    }
    *pos += 1;
    Ok(n)
}

fn parse_value(input: &[u8], pos: &mut usize, depth: usize) -> Result<B, String> {
    if depth > 200 {
        return Err("nesting deeper than 200".into());
    }
    if *pos >= input.len() {
        return Err("unexpected end".into());
    }
    match input[*pos] {
        b'i' => {
            *pos += 1;
            let start = *pos;
            if *pos < input.len() && input[*pos] == b'-' {
                *pos += 1;
            }
            let dstart = *pos;
            while *pos < input.len() && input[*pos].is_ascii_digit() {
                *pos += 1;
            }
            if *pos == dstart {
                return Err(format!("no digits in integer at {}", start));
            }
            if input[dstart] == b'0' && (*pos - dstart > 1 || dstart != start) {
                return Err(format!("non-canonical integer at {}", start));
            }
            if *pos >= input.len() || input[*pos] != b'e' {
                return Err(format!("unterminated integer at {}", start));
            }
            let s = std::str::from_utf8(&input[start..*pos]).unwrap();
            *pos += 1;
            Ok(B::Int(s.parse().map_err(|_| "integer overflow".to_string())?))
        }
        b'l' => {
            *pos += 1;
            let mut items = Vec::new();
            loop {
                if *pos >= input.len() {
                    return Err("unterminated list".into());
                }
                if input[*pos] == b'e' {
                    *pos += 1;
                    return Ok(B::List(items));
                }
                items.push(parse_value(input, pos, depth + 1)?);
            }
        }
        b'd' => {
            *pos += 1;
            let mut items: Vec<(Vec<u8>, B)> = Vec::new();
            loop {
                if *pos >= input.len() {
                    return Err("unterminated dict".into());
                }
                if input[*pos] == b'e' {
                    *pos += 1;
                    return Ok(B::Dict(items));
                }
                let n = parse_len(input, pos)?;
                if input.len() - *pos < n {
                    return Err("key exceeds input".into());
                }
                let key = input[*pos..*pos + n].to_vec();
                *pos += n;
                if let Some((prev, _)) = items.last() {
                    if *prev >= key {
                        return Err(format!("dictionary keys not strictly sorted: {:?} then {:?}", String::from_utf8_lossy(prev), String::from_utf8_lossy(&key)));
                    }
                }
                let v = parse_value(input, pos, depth + 1)?;
                items.push((key, v));
            }
        }
        b'0'..=b'9' => {
            let n = parse_len(input, pos)?;
            if input.len() - *pos < n {
                return Err("string exceeds input".into());
            }
            let v = input[*pos..*pos + n].to_vec();
            *pos += n;
            Ok(B::Bytes(v))
        }
        c => Err(format!("unexpected byte {:#x} at {}", c, *pos)),
    }
}

/// Strict decode of exactly one value spanning the whole input
pub fn decode(input: &[u8]) -> Result<B, String> {
    let mut pos = 0;
    let v = parse_value(input, &mut pos, 0)?;
    if pos != input.len() {
        return Err(format!("{} trailing bytes", input.len() - pos));
    }
    Ok(v)
}
