//! BEP 15 reference encoder / decoder: explicit offsets, to_be_bytes, no zerocopy.

pub const PROTOCOL_ID: u64 = 0x41727101980;

#[derive(Clone, Debug, PartialEq, Eq)]
pub struct RefAnnounce {
    pub connection_id: i64,
    pub transaction_id: i32,
    pub info_hash: [u8; 20],
    pub peer_id: [u8; 20],
    pub downloaded: i64,
    pub left: i64,
    pub uploaded: i64,
    /// BEP 15: 0 none, 1 completed, 2 started, 3 stopped
    pub event: i32,
    pub ip: [u8; 4],
    pub key: i32,
    pub num_want: i32,
    pub port: u16,
}

#[derive(Clone, Debug, PartialEq, Eq)]
pub enum RefRequest {
    Connect { transaction_id: i32 },
    Announce(RefAnnounce),
    Scrape { connection_id: i64, transaction_id: i32, hashes: Vec<[u8; 20]> },
}

#[derive(Clone, Debug, PartialEq, Eq)]
pub enum RefResponse {
    Connect { transaction_id: i32, connection_id: i64 },
    AnnounceV4 { transaction_id: i32, interval: i32, leechers: i32, seeders: i32, peers: Vec<([u8; 4], u16)> },
    AnnounceV6 { transaction_id: i32, interval: i32, leechers: i32, seeders: i32, peers: Vec<([u8; 16], u16)> },
    /// (seeders, completed, leechers) per torrent
    Scrape { transaction_id: i32, stats: Vec<(i32, i32, i32)> },
    Error { transaction_id: i32, message: Vec<u8> },
}

pub fn encode_request(r: &RefRequest) -> Vec<u8> {
    let mut b = Vec::new();
    match r {
        RefRequest::Connect { transaction_id } => {
            b.extend_from_slice(&PROTOCOL_ID.to_be_bytes());
            b.extend_from_slice(&0i32.to_be_bytes());
            b.extend_from_slice(&transaction_id.to_be_bytes());
        }
        RefRequest::Announce(a) => {
            b.extend_from_slice(&a.connection_id.to_be_bytes()); // 0
            b.extend_from_slice(&1i32.to_be_bytes()); // 8
            b.extend_from_slice(&a.transaction_id.to_be_bytes()); // 12
            b.extend_from_slice(&a.info_hash); // 16
            b.extend_from_slice(&a.peer_id); // 36
            b.extend_from_slice(&a.downloaded.to_be_bytes()); // 56
            b.extend_from_slice(&a.left.to_be_bytes()); // 64
            b.extend_from_slice(&a.uploaded.to_be_bytes()); // 72
            b.extend_from_slice(&a.event.to_be_bytes()); // 80
            b.extend_from_slice(&a.ip); // 84
            b.extend_from_slice(&a.key.to_be_bytes()); // 88
            b.extend_from_slice(&a.num_want.to_be_bytes()); // 92
            b.extend_from_slice(&a.port.to_be_bytes()); // 96
            debug_assert_eq!(b.len(), 98);
        }
        RefRequest::Scrape { connection_id, transaction_id, hashes } => {
            b.extend_from_slice(&connection_id.to_be_bytes());
            b.extend_from_slice(&2i32.to_be_bytes());
            b.extend_from_slice(&transaction_id.to_be_bytes());
            for h in hashes {
                b.extend_from_slice(h);
            }
        }
    }
    b
}

fn i32_at(b: &[u8], o: usize) -> i32 {
    i32::from_be_bytes([b[o], b[o + 1], b[o + 2], b[o + 3]])
}
fn i64_at(b: &[u8], o: usize) -> i64 {
    let mut a = [0u8; 8];
    a.copy_from_slice(&b[o..o + 8]);
    i64::from_be_bytes(a)
}

/// Why a datagram is not a valid request (reference classification)
#[derive(Clone, Debug, PartialEq, Eq)]
pub enum RefReject {
    TooShort,
    UnknownAction,
    WrongProtocolId,
    UnknownEvent,
    PortZero { connection_id: i64, transaction_id: i32 },
    EmptyHashList { connection_id: i64, transaction_id: i32 },
    RaggedHashList { connection_id: i64, transaction_id: i32 },
}

/// Reference request decoder. Extension bytes after an announce are allowed;
/// a scrape is cut to the first `max_scrape` hashes.
pub fn decode_request(b: &[u8], max_scrape: usize) -> Result<RefRequest, RefReject> {
    if b.len() < 16 {
        return Err(RefReject::TooShort);
    }
    match i32_at(b, 8) {
        0 => {
            if i64_at(b, 0) as u64 != PROTOCOL_ID {
                return Err(RefReject::WrongProtocolId);
            }
            Ok(RefRequest::Connect { transaction_id: i32_at(b, 12) })
        }
        1 => {
            if b.len() < 98 {
                return Err(RefReject::TooShort);
            }
            let event = i32_at(b, 80);
            if !(0..=3).contains(&event) {
                return Err(RefReject::UnknownEvent);
            }
            let port = u16::from_be_bytes([b[96], b[97]]);
            let connection_id = i64_at(b, 0);
            let transaction_id = i32_at(b, 12);
            if port == 0 {
                return Err(RefReject::PortZero { connection_id, transaction_id });
            }
            Ok(RefRequest::Announce(RefAnnounce {
                connection_id,
                transaction_id,
                info_hash: b[16..36].try_into().unwrap(),
                peer_id: b[36..56].try_into().unwrap(),
                downloaded: i64_at(b, 56),
                left: i64_at(b, 64),
                uploaded: i64_at(b, 72),
                event,
                ip: b[84..88].try_into().unwrap(),
                key: i32_at(b, 88),
                num_want: i32_at(b, 92),
                port,
            }))
        }
        2 => {
            let connection_id = i64_at(b, 0);
            let transaction_id = i32_at(b, 12);
            let rest = &b[16..];
            if rest.is_empty() {
                return Err(RefReject::EmptyHashList { connection_id, transaction_id });
            }
            if rest.len() % 20 != 0 {
                return Err(RefReject::RaggedHashList { connection_id, transaction_id });
            }
            let hashes = rest.chunks(20).take(max_scrape).map(|c| c.try_into().unwrap()).collect();
            Ok(RefRequest::Scrape { connection_id, transaction_id, hashes })
        }
        _ => Err(RefReject::UnknownAction),
    }
}

pub fn encode_response(r: &RefResponse) -> Vec<u8> {
    let mut b = Vec::new();
    match r {
        RefResponse::Connect { transaction_id, connection_id } => {
            b.extend_from_slice(&0i32.to_be_bytes());
            b.extend_from_slice(&transaction_id.to_be_bytes());
            b.extend_from_slice(&connection_id.to_be_bytes());
        }
        RefResponse::AnnounceV4 { transaction_id, interval, leechers, seeders, peers } => {
            b.extend_from_slice(&1i32.to_be_bytes());
            b.extend_from_slice(&transaction_id.to_be_bytes());
            b.extend_from_slice(&interval.to_be_bytes());
            b.extend_from_slice(&leechers.to_be_bytes());
            b.extend_from_slice(&seeders.to_be_bytes());
            for (ip, port) in peers {
                b.extend_from_slice(ip);
                b.extend_from_slice(&port.to_be_bytes());
            }
        }
        RefResponse::AnnounceV6 { transaction_id, interval, leechers, seeders, peers } => {
            b.extend_from_slice(&1i32.to_be_bytes());
            b.extend_from_slice(&transaction_id.to_be_bytes());
            b.extend_from_slice(&interval.to_be_bytes());
            b.extend_from_slice(&leechers.to_be_bytes());
            b.extend_from_slice(&seeders.to_be_bytes());
            for (ip, port) in peers {
                b.extend_from_slice(ip);
                b.extend_from_slice(&port.to_be_bytes());
            }
        }
        RefResponse::Scrape { transaction_id, stats } => {
            b.extend_from_slice(&2i32.to_be_bytes());
            b.extend_from_slice(&transaction_id.to_be_bytes());
            for (s, c, l) in stats {
                b.extend_from_slice(&s.to_be_bytes());
                b.extend_from_slice(&c.to_be_bytes());
                b.extend_from_slice(&l.to_be_bytes());
            }
        }
        RefResponse::Error { transaction_id, message } => {
            b.extend_from_slice(&3i32.to_be_bytes());
            b.extend_from_slice(&transaction_id.to_be_bytes());
            b.extend_from_slice(message);
        }
    }
    b
}

/// Reference response decoder (the family is known from the socket)
pub fn decode_response(b: &[u8], ipv4: bool) -> Option<RefResponse> {
    if b.len() < 8 {
        return None;
    }
    let transaction_id = i32_at(b, 4);
    match i32_at(b, 0) {
        0 => {
            if b.len() != 16 {
                return None;
            }
            Some(RefResponse::Connect { transaction_id, connection_id: i64_at(b, 8) })
        }
        1 => {
            if b.len() < 20 {
                return None;
            }
            let interval = i32_at(b, 8);
            let leechers = i32_at(b, 12);
            let seeders = i32_at(b, 16);
            let rest = &b[20..];
            if ipv4 {
                if rest.len() % 6 != 0 {
                    return None;
                }
                let peers = rest.chunks(6).map(|c| (c[..4].try_into().unwrap(), u16::from_be_bytes([c[4], c[5]]))).collect();
                Some(RefResponse::AnnounceV4 { transaction_id, interval, leechers, seeders, peers })
            } else {
                if rest.len() % 18 != 0 {
                    return None;
                }
                let peers = rest.chunks(18).map(|c| (c[..16].try_into().unwrap(), u16::from_be_bytes([c[16], c[17]]))).collect();
                Some(RefResponse::AnnounceV6 { transaction_id, interval, leechers, seeders, peers })
            }
        }
        2 => {
            let rest = &b[8..];
            if rest.len() % 12 != 0 {
                return None;
            }
            Some(RefResponse::Scrape { transaction_id, stats: rest.chunks(12).map(|c| (i32_at(c, 0), i32_at(c, 4), i32_at(c, 8))).collect() })
        }
        3 => Some(RefResponse::Error { transaction_id, message: b[8..].to_vec() }),
        _ => None,
    }
}
