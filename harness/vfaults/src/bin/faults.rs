//! faults engine (C19): one child process per scenario. The child starts a
//! tracker in-process, optionally serves requests, arms a fault in one worker
//! (panic in the worker's loop / in a detached per-connection task, early
//! return Ok / Err, socket set-up failure, prometheus bind failure), notes the
//! moment the probe fires and waits for `run()` to return. Verdict (parent):
//! run() returned an error within ten seconds of the fault.

use std::process::Command;
use std::sync::atomic::{AtomicBool, AtomicU64, Ordering};
use std::sync::{Arc, Mutex};
use std::time::{Duration, Instant};

use serde_json::json;

use vcore::{Args, Report};

static ARMED: AtomicBool = AtomicBool::new(false);
static FIRED_AT_MS: AtomicU64 = AtomicU64::new(0);

#[derive(Clone, Debug)]
struct Scenario {
    tracker: String, // udp-mio | udp-uring | http | ws
    worker: String,  // socket | swarm | cleaning | statistics | signals | prometheus
    index: usize,
    fault: String,  // panic | panic_task | return_ok | return_err | bind_fail | prometheus_bind_fail
    moment: String, // first | after
    workers: usize,
}

impl Scenario {
    /// "after" = after serving requests; "lateNN" = the same, but only once the tracker has been up for NN seconds
    /// (the property says "at any moment of its life": a supervision loop may treat late failures differently)
    fn is_after(&self) -> bool {
        self.moment == "after" || self.moment == "afterheld" || self.moment.starts_with("late")
    }
    /// "afterheld" = after serving requests, while client connections that have been served are still open (idle
    /// keep-alive / WebSocket connections, and one that keeps sending requests): what a worker does with its open
    /// connections when it stops must not delay the tracker's exit (seeded C19c drained them first).
    fn held(&self) -> bool {
        self.moment == "afterheld"
    }
    fn late_s(&self) -> u64 {
        self.moment.strip_prefix("late").and_then(|x| x.parse().ok()).unwrap_or(0)
    }
    fn id(&self) -> String {
        format!("{}/{}{}/{}/{}/n{}", self.tracker, self.worker, self.index, self.fault, self.moment, self.workers)
    }
    fn args(&self) -> Vec<String> {
        vec!["--tracker".into(), self.tracker.clone(), "--worker".into(), self.worker.clone(), "--index".into(), self.index.to_string(), "--fault".into(), self.fault.clone(), "--moment".into(), self.moment.clone(), "--workers".into(), self.workers.to_string()]
    }
    fn probe_name(&self) -> Option<String> {
        let t = if self.tracker.starts_with("udp") { "udp" } else { self.tracker.as_str() };
        Some(match (t, self.worker.as_str(), self.fault.as_str()) {
            (_, _, "bind_fail") | (_, _, "prometheus_bind_fail") => return None,
            (_, "prometheus", _) => "prometheus.start".to_string(),
            ("udp", "socket", _) => "udp.socket.loop".to_string(),
            ("udp", "cleaning", _) => "udp.cleaning.loop".to_string(),
            ("udp", "statistics", _) => "udp.statistics.loop".to_string(),
            ("udp", "signals", _) => "udp.signals.loop".to_string(),
            (t, "socket", "panic_task") => format!("{}.socket.connection", t),
            (t, "socket", "panic") if self.is_after() => format!("{}.socket.accept", t),
            (t, "socket", "return_ok" | "return_err") if self.is_after() && t == "http" => format!("{}.socket.accept", t),
            (t, "socket", _) if self.is_after() && t == "ws" => format!("{}.socket.accept", t),
            (t, "socket", _) => format!("{}.socket.start", t),
            (t, "swarm", "panic") if self.is_after() => format!("{}.swarm.request", t),
            (t, "swarm", _) => format!("{}.swarm.start", t),
            (t, "signals", _) => format!("{}.signals.loop", t),
            _ => return None,
        })
    }
    fn thread_name(&self) -> String {
        match self.worker.as_str() {
            "socket" => format!("socket-{:02}", self.index + 1),
            "swarm" => format!("swarm-{:02}", self.index + 1),
            other => other.to_string(),
        }
    }
}

static HELD_HTTP: Mutex<Vec<vhttp::live::Conn>> = Mutex::new(Vec::new());
static HELD_WS: Mutex<Vec<vws::live::WsConn>> = Mutex::new(Vec::new());

fn now_ms(t0: Instant) -> u64 {
    t0.elapsed().as_millis() as u64 + 1
}

fn child(args: &Args) -> ! {
    let sc = Scenario { tracker: args.str("tracker", "udp-mio"), worker: args.str("worker", "socket"), index: args.usize("index", 0), fault: args.str("fault", "panic"), moment: args.str("moment", "first"), workers: args.usize("workers", 1) };
    let out = args.str("childout", "/dev/null");
    let tmp = args.str("tmpdir", "/tmp");
    let t0 = Instant::now();
    vcore::quiet_panics();
    // the fault: fires once, in the targeted worker thread only
    if let Some(probe) = sc.probe_name() {
        let target_thread = sc.thread_name();
        let fault = sc.fault.clone();
        let needs_arming = sc.is_after();
        aquatic_common::verif::set_probe_handler(Some(Arc::new(move |name: &str| {
            if name != probe {
                return 0;
            }
            if needs_arming && !ARMED.load(Ordering::SeqCst) {
                return 0;
            }
            let here = std::thread::current().name().unwrap_or("").to_string();
            if here != target_thread {
                return 0;
            }
            if FIRED_AT_MS.compare_exchange(0, now_ms(t0), Ordering::SeqCst, Ordering::SeqCst).is_err() {
                return 0;
            }
            match fault.as_str() {
                "panic" | "panic_task" => panic!("verif: injected worker panic"),
                "return_ok" => aquatic_common::verif::ACTION_RETURN_OK,
                _ => aquatic_common::verif::ACTION_RETURN_ERR,
            }
        })));
    }
    let result: Arc<Mutex<Option<(u64, String)>>> = Arc::new(Mutex::new(None));
    let r2 = result.clone();
    let nonlocal = "192.0.2.1"; // TEST-NET-1: not a local address, bind fails
    let prom_port = vcore::net::free_tcp_port();
    let busy_listener = if sc.fault == "prometheus_bind_fail" { Some(std::net::TcpListener::bind(("127.0.0.1", prom_port)).unwrap()) } else { None };
    let want_prom = sc.worker == "prometheus";
    // ---- start the tracker
    let mut udp_t: Option<(std::net::SocketAddr, usize, bool)> = None;
    let mut http_t: Option<std::net::SocketAddr> = None;
    let mut ws_t: Option<std::net::SocketAddr> = None;
    match sc.tracker.as_str() {
        "udp-mio" | "udp-uring" => {
            let uring = sc.tracker == "udp-uring";
            let mut config = vudp::live::base_config(&vudp::live::Opts { workers: sc.workers, uring, ..Default::default() });
            config.cleaning.torrent_cleaning_interval = 1;
            config.statistics.interval = 1;
            if sc.worker == "statistics" || want_prom {
                config.statistics.write_html_to_file = true;
                config.statistics.html_file_path = format!("{}/stats_{}.html", tmp, std::process::id()).into();
            }
            if want_prom {
                config.statistics.run_prometheus_endpoint = true;
                config.statistics.prometheus_endpoint_address = std::net::SocketAddr::new("127.0.0.1".parse().unwrap(), prom_port);
            }
            if sc.fault == "bind_fail" {
                config.network.address_ipv4 = format!("{}:{}", nonlocal, config.network.address_ipv4.port()).parse().unwrap();
                FIRED_AT_MS.store(now_ms(t0), Ordering::SeqCst);
            }
            if sc.fault == "prometheus_bind_fail" {
                FIRED_AT_MS.store(now_ms(t0), Ordering::SeqCst);
            }
            udp_t = Some((std::net::SocketAddr::V4(config.network.address_ipv4), sc.workers, uring));
            std::thread::Builder::new().name("tracker-run".into()).spawn(move || {
                let r = aquatic_udp::run(config);
                *r2.lock().unwrap() = Some((now_ms(t0), format!("{:?}", r.map_err(|e| format!("{:#}", e)))));
            }).unwrap();
        }
        "http" => {
            let (s, w) = if sc.worker == "swarm" { (1, sc.workers) } else { (sc.workers, 1) };
            let mut config = vhttp::live::base_config(s, w, true);
            config.network.use_ipv6 = false; // one listener per socket worker: an early return of the accept loop ends the worker
            if want_prom {
                config.metrics.run_prometheus_endpoint = true;
                config.metrics.prometheus_endpoint_address = std::net::SocketAddr::new("127.0.0.1".parse().unwrap(), prom_port);
            }
            if sc.fault == "bind_fail" {
                config.network.address_ipv4 = format!("{}:{}", nonlocal, config.network.address_ipv4.port()).parse().unwrap();
                FIRED_AT_MS.store(now_ms(t0), Ordering::SeqCst);
            }
            if sc.fault == "prometheus_bind_fail" {
                FIRED_AT_MS.store(now_ms(t0), Ordering::SeqCst);
            }
            http_t = Some(std::net::SocketAddr::V4(config.network.address_ipv4));
            std::thread::Builder::new().name("tracker-run".into()).spawn(move || {
                let r = aquatic_http::run(config);
                *r2.lock().unwrap() = Some((now_ms(t0), format!("{:?}", r.map_err(|e| format!("{:#}", e)))));
            }).unwrap();
        }
        _ => {
            let (s, w) = if sc.worker == "swarm" { (1, sc.workers) } else { (sc.workers, 1) };
            let mut config = vws::live::base_config(s, w);
            if want_prom {
                config.metrics.run_prometheus_endpoint = true;
                config.metrics.prometheus_endpoint_address = std::net::SocketAddr::new("127.0.0.1".parse().unwrap(), prom_port);
            }
            if sc.fault == "bind_fail" {
                config.network.address = format!("{}:{}", nonlocal, config.network.address.port()).parse().unwrap();
                FIRED_AT_MS.store(now_ms(t0), Ordering::SeqCst);
            }
            if sc.fault == "prometheus_bind_fail" {
                FIRED_AT_MS.store(now_ms(t0), Ordering::SeqCst);
            }
            ws_t = Some(std::net::SocketAddr::new("127.0.0.1".parse().unwrap(), config.network.address.port()));
            std::thread::Builder::new().name("tracker-run".into()).spawn(move || {
                let r = aquatic_ws::run(config);
                *r2.lock().unwrap() = Some((now_ms(t0), format!("{:?}", r.map_err(|e| format!("{:#}", e)))));
            }).unwrap();
        }
    }
    let done = |result: &Arc<Mutex<Option<(u64, String)>>>| result.lock().unwrap().is_some();
    // ---- traffic: serve a few requests before arming ("after"), and poke the probes that need traffic to fire
    let traffic = |n: usize| {
        for k in 0..n {
            if let Some((addr, _, _)) = udp_t {
                // several source addresses so that every socket worker sees datagrams (SO_REUSEPORT hashing)
                for h in 0..12u8 {
                    if let Ok(mut c) = vudp::wire::Client::new(std::net::IpAddr::V4(std::net::Ipv4Addr::new(127, 0, 30, 1 + h)), addr) {
                        let _ = c.send(&vcore::refudp::encode_request(&vcore::refudp::RefRequest::Connect { transaction_id: k as i32 }));
                        let _ = c.recv_some(1, Duration::from_millis(20));
                    }
                }
            }
            if let Some(addr) = http_t {
                for h in 0..12u8 {
                    if let Ok(mut c) = vhttp::live::Conn::open(addr, Some(std::net::IpAddr::V4(std::net::Ipv4Addr::new(127, 0, 31, 1 + h)))) {
                        let mut hash = [7u8; 20];
                        hash[0] = h; // spread over swarm workers
                        let _ = c.request(&vhttp::live::announce_req(&hash, 1000 + k as u16, "started", 1, None, "", ""), 300);
                    }
                }
            }
            if let Some(addr) = ws_t {
                for h in 0..12u8 {
                    if let Ok(mut c) = vws::live::WsConn::open(addr, Some(std::net::IpAddr::V4(std::net::Ipv4Addr::new(127, 0, 32, 1 + h)))) {
                        let mut hash = [7u8; 20];
                        hash[0] = h;
                        let mut pid = [9u8; 20];
                        pid[0] = h;
                        pid[1] = k as u8;
                        let _ = c.send_text(&vws::live::announce_json(&hash, &pid, Some("started"), Some(1), None, None));
                        let _ = c.wait_message(300);
                    }
                }
            }
        }
    };
    // wait until the tracker serves (unless it is meant to fail at start-up)
    // (signals: SIGUSR1 before run() has installed its handler would simply kill the process - wait until the tracker serves)
    let startup_fault = (sc.moment == "first" && sc.worker != "signals") || sc.fault.ends_with("bind_fail");
    if !startup_fault {
        let t1 = Instant::now();
        loop {
            let up = if let Some((addr, _, _)) = udp_t {
                vudp::wire::Client::new("127.0.0.1".parse().unwrap(), addr).ok().and_then(|mut c| c.connect(1)).is_some()
            } else if let Some(addr) = http_t {
                vhttp::live::Conn::open(addr, None).ok().map(|mut c| c.request(&vhttp::live::scrape_req(&[[1u8; 20]], ""), 300).is_ok()).unwrap_or(false)
            } else {
                vws::live::WsConn::open(ws_t.unwrap(), None).is_ok()
            };
            if up || done(&result) || t1.elapsed() > Duration::from_secs(90) {
                break;
            }
            std::thread::sleep(Duration::from_millis(30));
        }
        std::thread::sleep(Duration::from_millis(300));
        traffic(3);
        // late faults: keep the tracker busy with a little traffic until it has been up long enough
        let up_since = Instant::now();
        while up_since.elapsed() < Duration::from_secs(sc.late_s()) && !done(&result) {
            traffic(1);
            std::thread::sleep(Duration::from_millis(700));
        }
        if sc.held() {
            // one served, still open connection per source address (spread over the socket workers), kept until exit
            if let Some(addr) = http_t {
                for h in 0..8u8 {
                    if let Ok(mut c) = vhttp::live::Conn::open(addr, Some(std::net::IpAddr::V4(std::net::Ipv4Addr::new(127, 0, 33, 1 + h)))) {
                        let _ = c.request(&vhttp::live::announce_req(&[8u8; 20], 2000 + h as u16, "started", 1, None, "", ""), 2000);
                        HELD_HTTP.lock().unwrap().push(c);
                    }
                }
            }
            if let Some(addr) = ws_t {
                for h in 0..8u8 {
                    if let Ok(mut c) = vws::live::WsConn::open(addr, Some(std::net::IpAddr::V4(std::net::Ipv4Addr::new(127, 0, 34, 1 + h)))) {
                        let mut pid = [10u8; 20];
                        pid[0] = h;
                        let _ = c.send_text(&vws::live::announce_json(&[8u8; 20], &pid, Some("started"), Some(1), None, None));
                        let _ = c.wait_message(2000);
                        HELD_WS.lock().unwrap().push(c);
                    }
                }
            }
            // ... and one of them stays busy from another thread until the process exits
            std::thread::spawn(move || loop {
                if let Some(c) = HELD_HTTP.lock().unwrap().first_mut() {
                    let _ = c.request(&vhttp::live::scrape_req(&[[8u8; 20]], ""), 500);
                }
                if let Some(c) = HELD_WS.lock().unwrap().first_mut() {
                    let _ = c.send_text(&vws::live::scrape_json(Some(&[[8u8; 20]]), true));
                    let _ = c.wait_message(500);
                }
                std::thread::sleep(Duration::from_millis(400));
            });
        }
        ARMED.store(true, Ordering::SeqCst);
    }
    // poke: traffic and signals until the probe fired (or 12 s)
    let t2 = Instant::now();
    while FIRED_AT_MS.load(Ordering::SeqCst) == 0 && !done(&result) && t2.elapsed() < Duration::from_secs(45) {
        if sc.worker == "signals" {
            unsafe {
                libc::kill(libc::getpid(), libc::SIGUSR1);
            }
        }
        if sc.is_after() || sc.fault == "panic_task" {
            traffic(1);
        }
        std::thread::sleep(Duration::from_millis(100));
    }
    // wait for run() to return (at most 14 s after the fault)
    let t3 = Instant::now();
    while !done(&result) && t3.elapsed() < Duration::from_secs(14) {
        std::thread::sleep(Duration::from_millis(20));
    }
    let res = result.lock().unwrap().clone();
    let o = json!({"scenario": sc.id(), "fired_at_ms": FIRED_AT_MS.load(Ordering::SeqCst), "returned_at_ms": res.as_ref().map(|r| r.0), "result": res.as_ref().map(|r| r.1.clone())});
    std::fs::write(&out, serde_json::to_string(&o).unwrap()).unwrap();
    drop(busy_listener);
    unsafe { libc::_exit(0) }
}

fn scenarios(thorough: bool) -> Vec<Scenario> {
    let mut v = Vec::new();
    let mk = |tracker: &str, worker: &str, index: usize, fault: &str, moment: &str, workers: usize| Scenario { tracker: tracker.into(), worker: worker.into(), index, fault: fault.into(), moment: moment.into(), workers };
    for tracker in ["udp-mio", "udp-uring"] {
        // socket workers
        for (fault, moment) in [("panic", "after"), ("return_err", "first"), ("return_ok", "after"), ("bind_fail", "first"), ("panic", "first")] {
            let configs: Vec<(usize, usize)> = if thorough { vec![(1, 0), (2, 0), (2, 1), (3, 2)] } else if fault == "panic" && moment == "after" { vec![(2, 1)] } else { vec![(1, 0)] };
            for (n, i) in configs {
                if tracker == "udp-uring" && fault == "return_err" {
                    continue; // the io_uring loop only supports a plain return
                }
                if !thorough && tracker == "udp-uring" && !(fault == "panic" && moment == "after" || fault == "return_ok") {
                    continue;
                }
                v.push(mk(tracker, "socket", if fault == "bind_fail" { 0 } else { i }, fault, moment, n));
            }
        }
        // late in the tracker's life
        if tracker == "udp-mio" || thorough {
            v.push(mk(tracker, "socket", 0, "panic", "late17", 1));
        }
        if thorough {
            v.push(mk(tracker, "socket", 1, "panic", "late40", 2));
            v.push(mk(tracker, "socket", 0, "return_ok", "late80", 1));
        }
        if tracker == "udp-mio" || thorough {
            for worker in ["cleaning", "statistics", "signals"] {
                for fault in ["panic", "return_ok", "return_err"] {
                    if !thorough && !(fault == "panic" || (worker == "cleaning" && fault == "return_err") || (worker == "signals" && fault == "return_ok")) {
                        continue;
                    }
                    v.push(mk(tracker, worker, 0, fault, "first", 1));
                }
            }
            v.push(mk(tracker, "prometheus", 0, "panic", "first", 1));
            v.push(mk(tracker, "prometheus", 0, "prometheus_bind_fail", "first", 1));
            if thorough {
                v.push(mk(tracker, "prometheus", 0, "return_ok", "first", 1));
                v.push(mk(tracker, "prometheus", 0, "return_err", "first", 1));
            }
        }
    }
    for tracker in ["http", "ws"] {
        let ns: Vec<(usize, usize)> = if thorough { vec![(1, 0), (2, 0), (2, 1), (3, 2)] } else { vec![(2, 1)] };
        for (n, i) in ns.iter() {
            v.push(mk(tracker, "socket", *i, "panic", "first", *n));
            v.push(mk(tracker, "socket", *i, "panic", "after", *n));
            v.push(mk(tracker, "socket", *i, "panic_task", "after", *n));
            v.push(mk(tracker, "swarm", *i, "panic", "after", *n));
            if thorough || *n == 2 {
                v.push(mk(tracker, "socket", *i, "return_err", "first", *n));
                v.push(mk(tracker, "socket", *i, "return_ok", if tracker == "http" { "after" } else { "first" }, *n));
                v.push(mk(tracker, "swarm", *i, "return_ok", "first", *n));
                v.push(mk(tracker, "swarm", *i, "return_err", "first", *n));
                v.push(mk(tracker, "swarm", *i, "panic", "first", *n));
            }
        }
        // with served client connections still open when the worker stops
        v.push(mk(tracker, "socket", 0, "return_ok", "afterheld", 1));
        v.push(mk(tracker, "socket", 1, "panic", "afterheld", 2));
        if thorough {
            v.push(mk(tracker, "socket", 0, "return_err", "afterheld", 1));
            v.push(mk(tracker, "socket", 0, "panic", "afterheld", 1));
            v.push(mk(tracker, "socket", 2, "return_ok", "afterheld", 3));
            v.push(mk(tracker, "socket", 0, "panic_task", "afterheld", 2));
            v.push(mk(tracker, "swarm", 0, "panic", "afterheld", 1));
            v.push(mk(tracker, "swarm", 1, "panic", "afterheld", 2));
        }
        // late in the tracker's life
        v.push(mk(tracker, "socket", 0, "panic", "late17", 1));
        if thorough {
            v.push(mk(tracker, "swarm", 0, "panic", "late17", 1));
            v.push(mk(tracker, "socket", 1, "panic", "late40", 2));
            v.push(mk(tracker, "swarm", 1, "panic", "late80", 2));
        }
        v.push(mk(tracker, "socket", 0, "bind_fail", "first", 1));
        v.push(mk(tracker, "signals", 0, "panic", "first", 1));
        v.push(mk(tracker, "signals", 0, "return_ok", "first", 1));
        v.push(mk(tracker, "prometheus", 0, "panic", "first", 1));
        v.push(mk(tracker, "prometheus", 0, "prometheus_bind_fail", "first", 1));
        if thorough {
            v.push(mk(tracker, "signals", 0, "return_err", "first", 1));
            v.push(mk(tracker, "prometheus", 0, "return_ok", "first", 1));
            v.push(mk(tracker, "prometheus", 0, "return_err", "first", 1));
        }
    }
    v
}

fn main() {
    let args = Args::parse();
    if args.flag("child") {
        child(&args);
    }
    let mut report = Report::new(
        "faults",
        "one child process per injected fault: tracker x worker kind (socket i of n, swarm i of n, cleaning, statistics, signals, prometheus) x fault (panic in the worker's loop, panic in a detached per-connection task, early return Ok / Err, socket bind failure, prometheus bind failure) x moment (first iteration / after serving requests); verdict: run() returns Err within 10 s of the moment the probe fired; \
         distinct = scenario tuple",
    );
    let tmp = args.str("tmpdir", "/verif/evidence/tmp");
    std::fs::create_dir_all(&tmp).unwrap();
    let exe = std::env::current_exe().unwrap();
    let mut list = scenarios(args.thorough());
    if let Some(path) = args.get("replay") {
        let v: serde_json::Value = serde_json::from_str(&std::fs::read_to_string(path).unwrap()).unwrap();
        let id = v["scenario"].as_str().unwrap_or("").to_string();
        let mut all = scenarios(true);
        all.extend(scenarios(false));
        list = all.into_iter().filter(|s| s.id() == id).take(1).collect();
    }
    if let Some(f) = args.get("only") {
        list.retain(|s| s.id().contains(f));
    }
    let par = args.usize("par", 4);
    let work = Mutex::new(list.clone());
    let results: Mutex<Vec<(Scenario, Option<serde_json::Value>, String)>> = Mutex::new(Vec::new());
    std::thread::scope(|s| {
        for w in 0..par {
            let (work, results, exe, tmp) = (&work, &results, &exe, &tmp);
            s.spawn(move || loop {
                let sc = match work.lock().unwrap().pop() {
                    Some(x) => x,
                    None => break,
                };
                let out = format!("{}/fault_{}_{}.json", tmp, std::process::id(), sc.id().replace('/', "_"));
                let _ = std::fs::remove_file(&out);
                let mut cmd = Command::new(exe);
                cmd.arg("--child").args(sc.args()).args(["--childout", &out, "--tmpdir", tmp]).stdout(std::process::Stdio::null()).stderr(std::process::Stdio::null());
                let mut ch = cmd.spawn().unwrap();
                let t0 = Instant::now();
                let status = loop {
                    match ch.try_wait().unwrap() {
                        Some(st) => break format!("{:?}", st),
                        None => {
                            if t0.elapsed() > Duration::from_secs(240 + sc.late_s()) {
                                let _ = ch.kill();
                                let _ = ch.wait();
                                break "killed by the harness watchdog".to_string();
                            }
                            std::thread::sleep(Duration::from_millis(50));
                        }
                    }
                };
                let j = std::fs::read_to_string(&out).ok().and_then(|t| serde_json::from_str(&t).ok());
                let _ = std::fs::remove_file(&out);
                results.lock().unwrap().push((sc, j, status));
                let _ = w;
            });
        }
    });
    for (sc, j, status) in results.into_inner().unwrap() {
        report.eval();
        let replay = json!({"engine":"faults","scenario":sc.id()});
        let sig_base = format!("{}.{}.{}", sc.tracker.replace('-', "_"), sc.worker, sc.fault);
        match j {
            None if status.contains("watchdog") => {
                report.inconclusive(format!("{}: child did not finish within the harness watchdog (machine overloaded?)", sc.id()));
            }
            None => {
                // the child died: the process exited, but run() did not return an error
                report.violation(&format!("faults.{}.process_died_instead_of_returning", sig_base), "fault", format!("{}: child process ended ({}) without run() returning", sc.id(), status), replay);
            }
            Some(j) => {
                let fired = j["fired_at_ms"].as_u64().unwrap_or(0);
                let returned = j["returned_at_ms"].as_u64();
                let result = j["result"].as_str().unwrap_or("").to_string();
                if fired == 0 && returned.is_none() {
                    report.inconclusive(format!("{}: the fault probe never fired", sc.id()));
                    continue;
                }
                match returned {
                    None => report.violation(&format!("faults.{}.run_keeps_running", sig_base), "fault", format!("{}: worker failed at +{} ms but run() had not returned 14 s later", sc.id(), fired), replay),
                    Some(r) => {
                        let latency = r.saturating_sub(fired.max(1));
                        if fired == 0 {
                            // run() returned although the fault never fired (e.g. tracker could not start): not what this scenario tests
                            report.inconclusive(format!("{}: run() returned ({}) before the fault fired", sc.id(), result.chars().take(80).collect::<String>()));
                        } else if !result.starts_with("Err") {
                            report.violation(&format!("faults.{}.returned_ok", sig_base), "fault", format!("{}: run() returned {} after the worker failed", sc.id(), result), replay);
                        } else if latency > 10_000 {
                            report.violation(&format!("faults.{}.too_slow", sig_base), "fault", format!("{}: run() returned {} ms after the worker failed (limit 10 s)", sc.id(), latency), replay);
                        } else {
                            report.nontrivial(vcore::fnv(sc.id().as_bytes()));
                            report.add("latency_ms_sum", latency);
                            let worst = report.counter("latency_ms_max");
                            if latency > worst {
                                report.counters.insert("latency_ms_max".into(), latency);
                            }
                            if report.samples.len() < 4 {
                                report.sample(json!({"scenario": sc.id(), "fault_fired_at_ms": fired, "run_returned_at_ms": r, "latency_ms": latency, "result": result.chars().take(90).collect::<String>()}));
                            }
                        }
                    }
                }
            }
        }
    }
    report.add("scenarios", list.len() as u64);
    report.finish(&args.out());
}
