#![no_main]
use libfuzzer_sys::fuzz_target;
fuzz_target!(|data: &[u8]| {
    let limit = [0u8, 1, 70, 255][data.len() % 4];
    let _ = aquatic_udp_protocol::Request::parse_bytes(data, limit);
});
