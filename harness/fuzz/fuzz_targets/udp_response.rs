#![no_main]
use libfuzzer_sys::fuzz_target;
fuzz_target!(|data: &[u8]| {
    let _ = aquatic_udp_protocol::Response::parse_bytes(data, data.len() % 2 == 0);
});
