#![no_main]
use libfuzzer_sys::fuzz_target;
use tungstenite::Message;
fuzz_target!(|data: &[u8]| {
    // tungstenite rejects non-UTF-8 text frames before the tracker sees them
    if let Ok(s) = std::str::from_utf8(data) {
        let _ = aquatic_ws_protocol::incoming::InMessage::from_ws_message(Message::Text(s.to_string().into()));
    }
});
