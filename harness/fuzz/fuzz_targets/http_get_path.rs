#![no_main]
use libfuzzer_sys::fuzz_target;
fuzz_target!(|data: &[u8]| {
    let s = String::from_utf8_lossy(data);
    let _ = aquatic_http_protocol::request::Request::parse_http_get_path(&s);
});
