#![no_main]
use libfuzzer_sys::fuzz_target;
fuzz_target!(|data: &[u8]| {
    let _ = aquatic_http_protocol::request::Request::parse_bytes(data);
});
