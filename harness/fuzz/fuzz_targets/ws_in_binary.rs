#![no_main]
use libfuzzer_sys::fuzz_target;
use tungstenite::Message;
fuzz_target!(|data: &[u8]| {
    let _ = aquatic_ws_protocol::incoming::InMessage::from_ws_message(Message::Binary(data.to_vec().into()));
});
