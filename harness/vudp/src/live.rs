//! In-process UDP tracker for the live engines

use std::net::{Ipv4Addr, Ipv6Addr, SocketAddr, SocketAddrV4, SocketAddrV6};
use std::sync::{Arc, Mutex};
use std::time::Duration;

use aquatic_udp::config::Config;

use crate::wire::Client;

pub struct Tracker {
    pub v4: SocketAddr,
    pub v6: SocketAddr,
    pub config: Config,
    /// set when run() returned (it never returns Ok)
    pub exit: Arc<Mutex<Option<String>>>,
}

pub struct Opts {
    pub workers: usize,
    pub uring: bool,
    /// IPv6 socket also accepts IPv4 (mapped) when false
    pub only_v6: bool,
    pub use_v4: bool,
    pub use_v6: bool,
}

impl Default for Opts {
    fn default() -> Self {
        Self { workers: 1, uring: false, only_v6: false, use_v4: true, use_v6: true }
    }
}

pub fn base_config(o: &Opts) -> Config {
    let p4 = vcore::net::free_udp_port();
    let mut p6 = vcore::net::free_udp_port();
    while p6 == p4 {
        p6 = vcore::net::free_udp_port();
    }
    let mut config = Config::default();
    config.socket_workers = o.workers;
    config.network.use_ipv4 = o.use_v4;
    config.network.use_ipv6 = o.use_v6;
    config.network.address_ipv4 = SocketAddrV4::new(Ipv4Addr::new(127, 0, 0, 1), p4);
    config.network.address_ipv6 = SocketAddrV6::new(Ipv6Addr::UNSPECIFIED, p6, 0, 0);
    config.network.set_only_ipv6 = o.only_v6;
    config.network.poll_timeout_ms = 1;
    config.network.use_io_uring = o.uring;
    config.cleaning.torrent_cleaning_interval = 1;
    config
}

/// Start `aquatic_udp::run` on a thread and wait until it answers a connect request.
pub fn start(config: Config) -> Result<Tracker, String> {
    let exit = Arc::new(Mutex::new(None));
    let e2 = exit.clone();
    let c2 = config.clone();
    std::thread::Builder::new()
        .name("tracker-run".into())
        .spawn(move || {
            let r = aquatic_udp::run(c2);
            *e2.lock().unwrap() = Some(format!("{:?}", r.map_err(|e| format!("{:#}", e))));
        })
        .unwrap();
    let v4 = SocketAddr::V4(config.network.address_ipv4);
    let v6 = SocketAddr::V6(SocketAddrV6::new(Ipv6Addr::LOCALHOST, config.network.address_ipv6.port(), 0, 0));
    let t = Tracker { v4, v6, config, exit };
    // readiness: a connect handshake through each enabled socket
    let t0 = std::time::Instant::now();
    loop {
        if let Some(e) = t.exit.lock().unwrap().clone() {
            return Err(format!("run() returned during start-up: {}", e));
        }
        let mut ok = true;
        if t.config.network.use_ipv4 {
            let mut c = Client::new("127.0.0.1".parse().unwrap(), t.v4).map_err(|e| e.to_string())?;
            c.send(&vcore::refudp::encode_request(&vcore::refudp::RefRequest::Connect { transaction_id: 1 })).ok();
            ok &= !c.recv_some(1, Duration::from_millis(100)).is_empty();
        }
        if t.config.network.use_ipv6 {
            let mut c = Client::new("::1".parse().unwrap(), t.v6).map_err(|e| e.to_string())?;
            c.send(&vcore::refudp::encode_request(&vcore::refudp::RefRequest::Connect { transaction_id: 1 })).ok();
            ok &= !c.recv_some(1, Duration::from_millis(100)).is_empty();
        }
        if ok {
            LIVE_SOCKET_WORKERS.fetch_add(t.config.socket_workers, std::sync::atomic::Ordering::SeqCst);
            return Ok(t);
        }
        if t0.elapsed() > Duration::from_secs(90) {
            return Err("tracker did not answer a connect request within 90 s".into());
        }
    }
}

pub fn counter(name: &str) -> u64 {
    aquatic_common::verif::counter(name)
}

/// Wait until every socket worker has refreshed its time sample at least twice after now
pub fn wait_time_refreshed(_workers: usize, _uring: bool) -> bool {
    // every socket worker thread alive in this process (trackers never stop once started)
    let live = LIVE_SOCKET_WORKERS.load(std::sync::atomic::Ordering::SeqCst);
    wait_all_threads("udp.time_refreshed", 2, live, 60_000)
}

pub static LIVE_SOCKET_WORKERS: std::sync::atomic::AtomicUsize = std::sync::atomic::AtomicUsize::new(0);

/// Wait until at least `threads` worker threads have each passed the per-thread hook `name` at least `n` times after
/// now (a global count could be produced by one busy worker while another is starved). Wall-clock bound only as a
/// watchdog: a false return is "inconclusive", never a verdict.
pub fn wait_all_threads(name: &str, n: u64, threads: usize, timeout_ms: u64) -> bool {
    let prefix = format!("{}@", name);
    let snap = || -> std::collections::BTreeMap<String, u64> { aquatic_common::verif::counters().into_iter().filter(|(k, _)| k.starts_with(&prefix)).collect() };
    let start = snap();
    vcore::net::wait_until(timeout_ms, || {
        let now = snap();
        now.iter().filter(|(k, v)| **v >= start.get(*k).copied().unwrap_or(0) + n).count() >= threads
    })
}


pub fn wait_cleans(n: u64) -> bool {
    let start = counter("udp.clean_done");
    vcore::net::wait_until(5_000 + 1_500 * n, || counter("udp.clean_done") >= start + n)
}

// ---- progress of the socket workers, observed through the `udp.socket.loop` probe (top of every loop iteration) ----

static LOOPS: Mutex<std::collections::BTreeMap<String, u64>> = Mutex::new(std::collections::BTreeMap::new());
pub static UNDECIDED: std::sync::atomic::AtomicU64 = std::sync::atomic::AtomicU64::new(0);

/// Install a probe handler that counts loop iterations per socket worker thread (no other effect)
pub fn install_loop_counter() {
    aquatic_common::verif::set_probe_handler(Some(Arc::new(|name: &str| {
        if name == "udp.socket.loop" {
            *LOOPS.lock().unwrap_or_else(|e| e.into_inner()).entry(format!("{:?}", std::thread::current().id())).or_insert(0) += 1;
        }
        0
    })));
}

/// Wait until every live socket worker has started `n` further loop iterations. A datagram that the tracker has
/// counted as seen has been answered (reply handed to the kernel) or dropped for good once its worker has started
/// two further iterations (io_uring queues the reply in iteration k, submits and awaits it in k+1).
pub fn wait_socket_loops(n: u64, timeout_ms: u64) -> bool {
    let snap = || LOOPS.lock().unwrap_or_else(|e| e.into_inner()).clone();
    let start = snap();
    let live = LIVE_SOCKET_WORKERS.load(std::sync::atomic::Ordering::SeqCst);
    vcore::net::wait_until(timeout_ms, || {
        let now = snap();
        now.iter().filter(|(k, v)| **v >= start.get(*k).copied().unwrap_or(0) + n).count() >= live
    })
}
