//! Minimal BEP 15 client side helpers for the live engines (independent of aquatic_udp_protocol)
