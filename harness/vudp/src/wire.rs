//! Client side of the live UDP engines: sockets on chosen loopback addresses,
//! datagram logs, BEP 15 encoding through the independent reference codec.

use std::net::{IpAddr, SocketAddr, UdpSocket};
use std::time::{Duration, Instant};

use vcore::refudp::*;

pub struct Client {
    pub sock: UdpSocket,
    pub local: SocketAddr,
    /// tracker address this client talks to (v4 socket or v6 / dual-stack socket)
    pub tracker: SocketAddr,
    pub sent: u64,
}

impl Client {
    pub fn new(bind_ip: IpAddr, tracker: SocketAddr) -> std::io::Result<Self> {
        let sock = UdpSocket::bind(SocketAddr::new(bind_ip, 0))?;
        sock.set_read_timeout(Some(Duration::from_millis(20)))?;
        let s2 = socket2::SockRef::from(&sock);
        let _ = s2.set_recv_buffer_size(4 << 20);
        let local = sock.local_addr()?;
        Ok(Self { sock, local, tracker, sent: 0 })
    }
    pub fn send(&mut self, bytes: &[u8]) -> std::io::Result<()> {
        self.sock.send_to(bytes, self.tracker)?;
        self.sent += 1;
        Ok(())
    }
    /// Everything that arrives within `wait` (returns early after `want` datagrams)
    pub fn recv_some(&self, want: usize, wait: Duration) -> Vec<(Vec<u8>, SocketAddr)> {
        let mut out = Vec::new();
        let t0 = Instant::now();
        let mut buf = [0u8; 65536];
        while out.len() < want && t0.elapsed() < wait {
            match self.sock.recv_from(&mut buf) {
                Ok((n, from)) => out.push((buf[..n].to_vec(), from)),
                Err(_) => {}
            }
        }
        out
    }
    /// Drain without waiting longer than `quiet` for the next datagram
    pub fn drain(&self, quiet: Duration) -> Vec<(Vec<u8>, SocketAddr)> {
        let mut out = Vec::new();
        let mut buf = [0u8; 65536];
        let mut last = Instant::now();
        while last.elapsed() < quiet {
            if let Ok((n, from)) = self.sock.recv_from(&mut buf) {
                out.push((buf[..n].to_vec(), from));
                last = Instant::now();
            }
        }
        out
    }
    /// connect handshake; None if no reply within 2 s
    pub fn connect(&mut self, tid: i32) -> Option<i64> {
        for _ in 0..20 {
            self.send(&encode_request(&RefRequest::Connect { transaction_id: tid })).ok()?;
            for (bytes, _) in self.recv_some(1, Duration::from_millis(100)) {
                if let Some(RefResponse::Connect { transaction_id, connection_id }) = decode_response(&bytes, true) {
                    if transaction_id == tid {
                        return Some(connection_id);
                    }
                }
            }
        }
        None
    }
    pub fn is_v4_source(&self) -> bool {
        match self.local.ip() {
            IpAddr::V4(_) => true,
            IpAddr::V6(a) => a.to_ipv4_mapped().is_some(),
        }
    }
}

pub fn announce_bytes(connection_id: i64, tid: i32, info_hash: [u8; 20], port: u16, event: i32, left: i64, num_want: i32, ip_field: [u8; 4]) -> Vec<u8> {
    encode_request(&RefRequest::Announce(RefAnnounce { connection_id, transaction_id: tid, info_hash, peer_id: [0x2d; 20], downloaded: 0, left, uploaded: 0, event, ip: ip_field, key: 0, num_want, port }))
}

pub fn scrape_bytes(connection_id: i64, tid: i32, hashes: &[[u8; 20]]) -> Vec<u8> {
    encode_request(&RefRequest::Scrape { connection_id, transaction_id: tid, hashes: hashes.to_vec() })
}
