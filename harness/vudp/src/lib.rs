//! Helpers shared by the UDP engines

use std::net::{IpAddr, Ipv4Addr, Ipv6Addr, SocketAddr};
use std::num::NonZeroU16;

use aquatic_common::CanonicalSocketAddr;
use aquatic_udp_protocol::*;
use vcore::model::PeerKey;

pub mod live;
pub mod wire;

/// Independent canonicalisation (std's `to_ipv4_mapped`), not the code's pattern match
pub fn canonical_ip(ip: IpAddr) -> IpAddr {
    match ip {
        IpAddr::V4(a) => IpAddr::V4(a),
        IpAddr::V6(a) => match a.to_ipv4_mapped() {
            Some(v4) => IpAddr::V4(v4),
            None => IpAddr::V6(a),
        },
    }
}

pub fn canonical_src(ip: IpAddr, port: u16) -> CanonicalSocketAddr {
    CanonicalSocketAddr::new(SocketAddr::new(ip, port))
}

pub fn event_from(code: u8) -> AnnounceEvent {
    match code & 3 {
        0 => AnnounceEvent::None,
        1 => AnnounceEvent::Completed,
        2 => AnnounceEvent::Started,
        _ => AnnounceEvent::Stopped,
    }
}

#[allow(clippy::too_many_arguments)]
pub fn announce_request(
    info_hash: [u8; 20],
    peer_id: [u8; 20],
    port: u16,
    event: u8,
    left: i64,
    numwant: i32,
    ip_field: u32,
    tid: i32,
) -> AnnounceRequest {
    AnnounceRequest {
        connection_id: ConnectionId::new(0),
        action_placeholder: AnnounceActionPlaceholder::default(),
        transaction_id: TransactionId::new(tid),
        info_hash: InfoHash(info_hash),
        peer_id: PeerId(peer_id),
        bytes_downloaded: NumberOfBytes::new(0),
        bytes_left: NumberOfBytes::new(left),
        bytes_uploaded: NumberOfBytes::new(0),
        event: event_from(event),
        ip_address: Ipv4AddrBytes(ip_field.to_be_bytes()),
        key: PeerKey32::new(0),
        peers_wanted: NumberOfPeers::new(numwant),
        port: Port::new(NonZeroU16::new(port).expect("port != 0")),
    }
}

pub use aquatic_udp_protocol::PeerKey as PeerKey32;

pub struct AnnounceReply {
    pub is_v4: bool,
    pub seeders: i32,
    pub leechers: i32,
    pub interval: i32,
    pub tid: i32,
    pub peers: Vec<PeerKey>,
}

pub fn decode_announce(response: &Response) -> Option<AnnounceReply> {
    match response {
        Response::AnnounceIpv4(r) => Some(AnnounceReply {
            is_v4: true,
            seeders: r.fixed.seeders.0.get(),
            leechers: r.fixed.leechers.0.get(),
            interval: r.fixed.announce_interval.0.get(),
            tid: r.fixed.transaction_id.0.get(),
            peers: r
                .peers
                .iter()
                .map(|p| PeerKey {
                    ip: IpAddr::V4(Ipv4Addr::from(p.ip_address.0)),
                    port: p.port.0.get(),
                })
                .collect(),
        }),
        Response::AnnounceIpv6(r) => Some(AnnounceReply {
            is_v4: false,
            seeders: r.fixed.seeders.0.get(),
            leechers: r.fixed.leechers.0.get(),
            interval: r.fixed.announce_interval.0.get(),
            tid: r.fixed.transaction_id.0.get(),
            peers: r
                .peers
                .iter()
                .map(|p| PeerKey {
                    ip: IpAddr::V6(Ipv6Addr::from(p.ip_address.0)),
                    port: p.port.0.get(),
                })
                .collect(),
        }),
        _ => None,
    }
}

/// Normalise a panic payload into a short signature fragment
pub fn panic_text(p: &(dyn std::any::Any + Send)) -> String {
    if let Some(s) = p.downcast_ref::<&str>() {
        s.to_string()
    } else if let Some(s) = p.downcast_ref::<String>() {
        s.clone()
    } else {
        "non-string panic".to_string()
    }
}

pub fn silence_panics() {
    vcore::quiet_panics();
}

/// Lock-order monitor (C04, "no interleaving can deadlock the workers"): reads the (held class -> requested class)
/// edges recorded by the tracked locks of swarm.rs during this process and reports a violation for every cycle
/// between distinct lock classes - two code paths that take the same two locks in opposite orders can deadlock under
/// some interleaving even if none of the executions observed here did. Nesting within one class is only counted.
pub fn check_lock_order(report: &mut vcore::Report, engine: &str) {
    use std::collections::{BTreeMap, BTreeSet};
    let short = |s: &str| -> String {
        // strip module paths: "hashbrown::map::HashMap<aquatic_udp_protocol::common::InfoHash, ..>" -> "HashMap<InfoHash, ..>"
        let mut out = String::new();
        let mut seg = String::new();
        let cs: Vec<char> = s.chars().collect();
        let mut i = 0;
        while i < cs.len() {
            let c = cs[i];
            if c.is_alphanumeric() || c == '_' {
                seg.push(c);
            } else if c == ':' && i + 1 < cs.len() && cs[i + 1] == ':' {
                seg.clear();
                i += 1;
            } else {
                out.push_str(&seg);
                seg.clear();
                out.push(c);
            }
            i += 1;
        }
        out.push_str(&seg);
        out
    };
    let edges = aquatic_common::verif::lock_order_edges();
    let mut adj: BTreeMap<String, BTreeSet<String>> = BTreeMap::new();
    for (a, b, n) in edges.iter() {
        let (a, b) = (short(a), short(b));
        report.add(&format!("lock_order.edge[{} -> {}].threads", a, b), *n);
        if a == b {
            report.add("lock_order.same_class_nesting(observation)", *n);
            continue;
        }
        adj.entry(a).or_default().insert(b);
    }
    report.add("lock_order.edges", edges.len() as u64);
    // cycle search: for every edge a -> b, is a reachable from b?
    let mut reported: BTreeSet<Vec<String>> = BTreeSet::new();
    for (a, outs) in adj.iter() {
        for b in outs.iter() {
            let mut stack = vec![(b.clone(), vec![a.clone(), b.clone()])];
            let mut seen: BTreeSet<String> = BTreeSet::new();
            while let Some((cur, path)) = stack.pop() {
                if &cur == a {
                    let mut key = path.clone();
                    key.sort();
                    key.dedup();
                    if reported.insert(key) {
                        report.violation(
                            "udp.lock_order.inversion",
                            "deadlock",
                            format!("lock classes are requested in a cyclic order: {} (each arrow: the left class was held by a thread while it requested the right one); some interleaving of these code paths deadlocks", path.join(" -> ")),
                            serde_json::json!({"engine": engine, "cycle": path, "edges": edges.iter().map(|(a, b, n)| format!("{} -> {} ({} threads)", short(a), short(b), n)).collect::<Vec<_>>()}),
                        );
                    }
                    break;
                }
                if !seen.insert(cur.clone()) {
                    continue;
                }
                for nx in adj.get(&cur).into_iter().flatten() {
                    let mut p = path.clone();
                    p.push(nx.clone());
                    stack.push((nx.clone(), p));
                }
            }
        }
    }
}
