//! C05 engine: the real ConnectionValidator (clock set through the verif
//! hook) against the reference predicate over mathematical integers, plus
//! structural forgery tests that survive a key change.

use std::net::{IpAddr, Ipv4Addr, Ipv6Addr};

use aquatic_udp::config::Config;
use aquatic_udp::workers::socket::ConnectionValidator;
use aquatic_udp_protocol::ConnectionId;
use serde_json::json;

use vcore::{Args, Report, SplitMix};
use vudp::*;

fn validator(age: u32) -> ConnectionValidator {
    let mut config = Config::default();
    config.cleaning.max_connection_age = age;
    ConnectionValidator::new(&config).expect("validator")
}

/// reference predicate for an id this validator issued to `same_ip` at t_issue
fn reference_valid(same_validator: bool, same_ip: bool, unaltered: bool, t_issue: u64, age: u64, t_check: u64) -> bool {
    same_validator && same_ip && unaltered && t_issue + age > t_check && t_issue <= t_check + 60
}

fn gen_ip(r: &mut SplitMix) -> IpAddr {
    match r.below(8) {
        0 => IpAddr::V4(Ipv4Addr::new(127, 0, 0, 1)),
        1 => IpAddr::V4(Ipv4Addr::new(0, 0, 0, 0)),
        2 => IpAddr::V4(Ipv4Addr::new(255, 255, 255, 255)),
        3 => IpAddr::V6(Ipv6Addr::LOCALHOST),
        4 => IpAddr::V4(Ipv4Addr::from(r.next() as u32)),
        5 => IpAddr::V6(Ipv4Addr::from(r.next() as u32).to_ipv6_mapped()),
        6 => IpAddr::V6(Ipv6Addr::from((r.next() as u128) << 64 | r.next() as u128)),
        _ => IpAddr::V6(Ipv6Addr::new(0, 0, 0, 0, 0, 0, r.next() as u16, r.next() as u16)), // ::a.b.c.d is NOT mapped
    }
}

fn time_grid(age: u32, r: &mut SplitMix) -> (u32, u32) {
    // (t_issue, t_check) around every boundary of the predicate
    let t_issue = match r.below(8) {
        0 => 0,
        1 => 1,
        2 => 60,
        3 => 61,
        4 => u32::MAX - 61,
        5 => u32::MAX - r.below(62) as u32,
        6 => r.below(10_000) as u32,
        _ => r.next() as u32,
    };
    let ti = t_issue as u64;
    let a = age as u64;
    let cand: [i128; 12] = [
        ti as i128,
        ti as i128 + 1,
        (ti + a) as i128 - 1,
        (ti + a) as i128,
        (ti + a) as i128 + 1,
        ti as i128 - 59,
        ti as i128 - 60,
        ti as i128 - 61,
        ti as i128 - 1,
        0,
        u32::MAX as i128,
        r.next() as u32 as i128,
    ];
    let c = cand[r.usize(cand.len())].clamp(0, u32::MAX as i128) as u32;
    (t_issue, c)
}

fn main() {
    let args = Args::parse();
    silence_panics();
    let mut report = Report::new(
        "udp_validator",
        "real ConnectionValidator with its whole-second clock set through the verif hook vs reference predicate (issued by this validator, same canonical IP, t_issue + age > t_check, t_issue <= t_check + 60) on a boundary grid of (age, t_issue, t_check), both families incl. mapped and ::a.b.c.d forms, ports ignored, clones; all 64 single-bit and sampled double-bit alterations, foreign-ip / foreign-validator / random ids, acceptances re-tested against fresh keys; \
         distinct = (age class, boundary position of t_check, address class, id provenance)",
    );
    let mut r = SplitMix::new(args.seed()).fork(0xC05 + args.u64("shard", 0) * 7919);
    let n = args.u64("rounds", if args.thorough() { 10_000_000 } else { 60_000 });
    let budget_s = args.u64("budget_s", if args.thorough() { 100 } else { 20 });
    let ages = [0u32, 1, 2, 59, 60, 61, 120, u32::MAX - 1, u32::MAX];
    let mut chance_accepts = 0u64;
    let mut forgeries = 0u64;
    let replay = args.get("replay").map(|p| serde_json::from_str::<serde_json::Value>(&std::fs::read_to_string(p).unwrap()).unwrap());

    let mut round = 0u64;
    while round < n && report.started.elapsed().as_secs() < budget_s && report.num_violations() < 10 {
        round += 1;
        let (age, t_issue, t_check, ip) = match &replay {
            Some(v) => (v["age"].as_u64().unwrap() as u32, v["t_issue"].as_u64().unwrap() as u32, v["t_check"].as_u64().unwrap() as u32, v["ip"].as_str().unwrap().parse().unwrap()),
            None => {
                let age = *r.pick(&ages);
                let (ti, tc) = time_grid(age, &mut r);
                (age, ti, tc, gen_ip(&mut r))
            }
        };
        if replay.is_some() && round > 1 {
            break;
        }
        let mut v = validator(age);
        let mut clone = v.clone();
        let port_a = 1 + r.below(65535) as u16;
        let port_b = 1 + r.below(65535) as u16;
        v.verif_set_elapsed(t_issue);
        let id = v.create_connection_id(canonical_src(ip, port_a));
        let case = |what: &str| json!({"engine":"udp_validator","age":age,"t_issue":t_issue,"t_check":t_check,"ip":ip.to_string(),"what":what});

        // 1. own ip (other port, via a clone with its own clock): reference predicate
        clone.verif_set_elapsed(t_check);
        v.verif_set_elapsed(t_check);
        let want = reference_valid(true, true, true, t_issue as u64, age as u64, t_check as u64);
        for (k, val) in [(0, &mut v), (1, &mut clone)] {
            report.eval();
            let got = val.connection_id_valid(canonical_src(ip, port_b), id);
            if got != want {
                let sig = if want { "udp.validator.valid_id_rejected" } else if (t_issue as u64) > t_check as u64 + 60 { "udp.validator.future_id_accepted" } else { "udp.validator.expired_id_accepted" };
                report.violation(sig, "validator", format!("id issued at t={} (age {}) checked at t={} from its own ip {} by {}: accepted={} reference={}", t_issue, age, t_check, ip, if k == 0 { "the issuing validator" } else { "a clone (other worker)" }, got, want), case("own"));
            }
        }
        let pos = {
            let (ti, a, tc) = (t_issue as i128, age as i128, t_check as i128);
            if tc == ti + a - 1 { 1 } else if tc == ti + a { 2 } else if tc == ti + a + 1 { 3 } else if tc == ti - 60 { 4 } else if tc == ti - 61 { 5 } else if tc < ti { 6 } else if tc < ti + a { 7 } else { 8 }
        };
        let ipclass = match ip {
            IpAddr::V4(_) => 0,
            IpAddr::V6(a) if a.to_ipv4_mapped().is_some() => 1,
            _ => 2,
        };
        let ageclass = ages.iter().position(|a| *a == age).unwrap_or(99) as u8;
        report.nontrivial(vcore::fnv(&[1, ageclass, pos, ipclass]));

        // mapped / plain forms of the same IPv4 host are the same source
        if let IpAddr::V4(a) = ip {
            report.eval();
            let got = v.connection_id_valid(canonical_src(IpAddr::V6(a.to_ipv6_mapped()), port_b), id);
            if got != want {
                report.violation("udp.validator.mapped_form_differs", "validator", format!("id for {} checked from its IPv4-mapped form: accepted={} reference={}", a, got, want), case("mapped"));
            }
        }

        // from here on the time window is chosen so that the unaltered id IS valid (if any window exists)
        let t_ok = t_issue; // t_check = t_issue: valid iff age > 0
        v.verif_set_elapsed(t_ok);
        let baseline = v.connection_id_valid(canonical_src(ip, port_a), id);
        if baseline != (age > 0) {
            report.violation("udp.validator.baseline", "validator", format!("id checked at its own issue second with age {}: accepted={}", age, baseline), case("baseline"));
        }

        // 2. another address
        let other = loop {
            let o = gen_ip(&mut r);
            if canonical_ip(o) != canonical_ip(ip) {
                break o;
            }
        };
        report.eval();
        if v.connection_id_valid(canonical_src(other, port_a), id) {
            chance_accepts += 1;
            if persists(age, t_issue, ip, &mut |vv: &mut ConnectionValidator, idd: ConnectionId| vv.connection_id_valid(canonical_src(other, port_a), idd)) {
                report.violation("udp.validator.foreign_ip_accepted", "validator", format!("id issued to {} accepted from {}", ip, other), case("foreign_ip"));
            }
        }
        report.nontrivial(vcore::fnv(&[2, ageclass, ipclass]));

        // 3. alterations: all 64 single-bit flips, sampled double-bit flips
        let raw = id.0.get();
        let masks: Vec<u64> = (0..64).map(|b| 1u64 << b).chain((0..24).map(|_| { let a = r.below(64); let mut b = r.below(64); if a == b { b = (b + 1) % 64; } (1u64 << a) | (1u64 << b) })).collect();
        for mask in masks {
            report.eval();
            forgeries += 1;
            let forged = ConnectionId::new((raw as u64 ^ mask) as i64);
            if v.connection_id_valid(canonical_src(ip, port_a), forged) {
                chance_accepts += 1;
                if persists(age, t_issue, ip, &mut |vv: &mut ConnectionValidator, idd: ConnectionId| vv.connection_id_valid(canonical_src(ip, port_a), ConnectionId::new((idd.0.get() as u64 ^ mask) as i64))) {
                    report.violation("udp.validator.altered_id_accepted", "validator", format!("id with bits {:#018x} flipped is accepted persistently (across fresh keys)", mask), case("altered"));
                }
            }
        }
        report.nontrivial(vcore::fnv(&[3, ageclass]));

        // 4. id from another validator instance ("previous run"), random ids
        let mut prev = validator(age);
        prev.verif_set_elapsed(t_issue);
        let foreign = prev.create_connection_id(canonical_src(ip, port_a));
        for forged in [foreign, ConnectionId::new(r.next() as i64), ConnectionId::new(0), ConnectionId::new(-1), ConnectionId::new((raw as u64 & 0xffff_ffff) as i64)] {
            report.eval();
            forgeries += 1;
            if v.connection_id_valid(canonical_src(ip, port_a), forged) {
                chance_accepts += 1;
                // a chance hit on one random value is not structural; test the same construction again
                let mut again = 0;
                for _ in 0..3 {
                    let mut fresh = validator(age);
                    fresh.verif_set_elapsed(t_issue);
                    let mut p2 = validator(age);
                    p2.verif_set_elapsed(t_issue);
                    let f2 = p2.create_connection_id(canonical_src(ip, port_a));
                    if fresh.connection_id_valid(canonical_src(ip, port_a), f2) {
                        again += 1;
                    }
                }
                if again == 3 {
                    report.violation("udp.validator.foreign_validator_id_accepted", "validator", "ids of another validator instance are accepted persistently".to_string(), case("foreign_validator"));
                }
            }
        }
        report.nontrivial(vcore::fnv(&[4, ageclass]));
        if report.samples.len() < 4 {
            report.sample(json!({"max_connection_age":age,"t_issue":t_issue,"t_check":t_check,"ip":ip.to_string(),"reference_says_valid":want,"id_hex":format!("{:016x}", raw as u64)}));
        }
    }
    report.add("rounds", round);
    report.add("forged_ids_tried", forgeries);
    report.add("first_stage_acceptances_of_forgeries(expected about tries/2^32)", chance_accepts);
    report.finish(&args.out());
}

/// Does the acceptance survive three fresh keys? `test` gets a fresh validator
/// (clock at t_issue) and the id that validator issues for (ip, t_issue).
fn persists(age: u32, t_issue: u32, ip: IpAddr, test: &mut dyn FnMut(&mut ConnectionValidator, ConnectionId) -> bool) -> bool {
    let mut hits = 0;
    for _ in 0..3 {
        let mut fresh = validator(age);
        fresh.verif_set_elapsed(t_issue);
        let id = fresh.create_connection_id(canonical_src(ip, 1234));
        if test(&mut fresh, id) {
            hits += 1;
        }
    }
    hits == 3
}
