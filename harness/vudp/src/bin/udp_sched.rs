//! sched engine (C04), monitor 1: serialised schedule enumeration.
//!
//! Small programs of 2-3 threads run against the real shared `TorrentMaps`.
//! The swarm probes (lock-free gaps of announce / scrape / clean) park each
//! thread; a scheduler releases exactly one thread at a time and walks the tree
//! of choices depth-first, so every leaf is one real execution under one
//! interleaving of critical sections. Every leaf's replies plus a quiescent
//! read-out are checked for linearizability per torrent; a thread that cannot
//! progress although it was released (lock held by a parked thread) is a forced
//! switch; no runnable and no parked thread = deadlock witness.

use std::collections::{BTreeMap, BTreeSet};
use std::net::{IpAddr, Ipv4Addr, Ipv6Addr};
use std::sync::atomic::{AtomicU64, Ordering};
use std::sync::{Arc, Condvar, Mutex};
use std::time::{Duration, Instant};

use aquatic_common::access_list::AccessListArcSwap;
use aquatic_common::{SecondsSinceServerStart, ValidUntil};
use aquatic_udp::common::{IpVersionStatistics, StatisticsMessage, SwarmWorkerStatistics};
use aquatic_udp::config::Config;
use aquatic_udp::swarm::TorrentMaps;
use aquatic_udp_protocol::*;
use crossbeam_channel::unbounded;
use rand::rngs::SmallRng;
use rand::SeedableRng;
use serde::{Deserialize, Serialize};
use serde_json::json;

use vcore::lin::{self, LKind, LOp, Verdict};
use vcore::model::PeerKey;
use vcore::{Args, Report};
use vudp::*;

// ------------------------------------------------------------------ programs

#[derive(Serialize, Deserialize, Clone, Debug)]
enum POp {
    /// announce by peer `k` on torrent `t`; event 3 = stopped; deadline absolute
    Announce { t: usize, k: usize, event: u8, left: i64, deadline: u32, numwant: i32 },
    Scrape { ts: Vec<usize> },
    Clean { now: u32 },
}

#[derive(Serialize, Deserialize, Clone, Debug)]
struct Program {
    name: String,
    v6: bool,
    /// info hash first bytes (decides the shard); same value = same shard
    torrents: Vec<u8>,
    setup: Vec<POp>,
    threads: Vec<Vec<POp>>,
    /// torrents put on a Deny-mode access list after the set-up (so the forbidden torrent has stored peers):
    /// a cleaning pass removes such a torrent whatever its deadlines
    #[serde(default)]
    deny: Vec<usize>,
}

fn hash_of(p: &Program, t: usize) -> [u8; 20] {
    let mut h = [0x44u8; 20];
    h[0] = p.torrents[t];
    h[1] = t as u8;
    h
}

fn peer_ip(v6: bool, k: usize) -> IpAddr {
    if v6 {
        IpAddr::V6(Ipv6Addr::new(0xfd00, 0, 0, 0, 0, 0, 0, 1 + k as u16))
    } else {
        IpAddr::V4(Ipv4Addr::new(10, 2, 0, 1 + k as u8))
    }
}

fn peer_key(v6: bool, k: usize) -> PeerKey {
    PeerKey { ip: peer_ip(v6, k), port: 2000 + k as u16 }
}

fn ann(t: usize, k: usize, event: u8, left: i64, deadline: u32) -> POp {
    POp::Announce { t, k, event, left, deadline, numwant: 50 }
}

fn templates(thorough: bool) -> Vec<Program> {
    let mut v = Vec::new();
    for v6 in [false, true] {
        let fam = if v6 { "v6" } else { "v4" };
        // 1. two announces create the same fresh torrent at once
        v.push(Program { deny: vec![], name: format!("fresh_fresh_{}", fam), v6, torrents: vec![7], setup: vec![], threads: vec![vec![ann(0, 1, 2, 1, 100)], vec![ann(0, 2, 2, 0, 100)]] });
        // 2. announce || clean on a torrent whose only peer is expired (the CHANGELOG window)
        v.push(Program { deny: vec![], name: format!("announce_clean_expired_{}", fam), v6, torrents: vec![7], setup: vec![ann(0, 0, 2, 1, 5)], threads: vec![vec![ann(0, 1, 2, 1, 100)], vec![POp::Clean { now: 10 }]] });
        // 3. announce || clean on an entry emptied by a stop
        v.push(Program { deny: vec![], name: format!("announce_clean_stopped_{}", fam), v6, torrents: vec![7], setup: vec![ann(0, 0, 2, 1, 100), ann(0, 0, 3, 1, 100)], threads: vec![vec![ann(0, 1, 2, 0, 100)], vec![POp::Clean { now: 1 }]] });
        // 4. stop || announce || clean
        v.push(Program { deny: vec![], name: format!("stop_announce_clean_{}", fam), v6, torrents: vec![7], setup: vec![ann(0, 0, 2, 1, 100)], threads: vec![vec![ann(0, 0, 3, 1, 100)], vec![ann(0, 1, 2, 1, 100)], vec![POp::Clean { now: 1 }]] });
        // 5. scrape || announce (two torrents, different shards)
        v.push(Program { deny: vec![], name: format!("scrape_announce_{}", fam), v6, torrents: vec![7, 8], setup: vec![ann(0, 0, 2, 0, 100)], threads: vec![vec![POp::Scrape { ts: vec![0, 1] }], vec![ann(0, 1, 2, 1, 100), ann(1, 1, 2, 0, 100)]] });
        // 6. same key announced from two threads (seeder vs leecher), scraped concurrently
        v.push(Program { deny: vec![], name: format!("same_key_twice_{}", fam), v6, torrents: vec![7], setup: vec![], threads: vec![vec![ann(0, 1, 2, 0, 100)], vec![ann(0, 1, 0, 1, 100)], vec![POp::Scrape { ts: vec![0] }]] });
        // 7. inline -> heap switch raced by two announces and a clean that expires one
        v.push(Program { deny: vec![], name: format!("grow_race_{}", fam), v6, torrents: vec![7], setup: vec![ann(0, 0, 2, 0, 5), ann(0, 1, 2, 1, 100)], threads: vec![vec![ann(0, 2, 2, 1, 100)], vec![ann(0, 3, 2, 0, 100)], vec![POp::Clean { now: 10 }]] });
        // 13. a cleaning pass that removes a torrent forbidden by the access list, raced with a scrape of it and an
        //     announce that passed the socket worker's check before the list was reloaded
        {
            let mut p = Program { deny: vec![0], name: format!("forbidden_clean_scrape_{}", fam), v6, torrents: vec![7], setup: vec![ann(0, 0, 2, 1, 100), ann(0, 1, 2, 0, 100)], threads: vec![vec![POp::Clean { now: 1 }], vec![POp::Scrape { ts: vec![0] }], vec![ann(0, 2, 2, 1, 100)]] };
            v.push(p.clone());
            if thorough {
                // 14. ... with an allowed torrent in the same shard and a heap-sized forbidden one
                p.name = format!("forbidden_clean_two_torrents_{}", fam);
                p.torrents = vec![7, 23];
                p.setup = vec![ann(0, 0, 2, 1, 100), ann(0, 1, 2, 0, 100), ann(0, 3, 2, 0, 100), ann(1, 0, 2, 1, 100)];
                p.threads = vec![vec![POp::Clean { now: 1 }], vec![POp::Scrape { ts: vec![1, 0] }], vec![ann(1, 2, 2, 1, 100), ann(0, 2, 2, 1, 100)]];
                v.push(p);
            }
        }
        if thorough || !v6 {
            // 8. two cleaners and an announce on an expired-only torrent
            v.push(Program { deny: vec![], name: format!("two_cleaners_{}", fam), v6, torrents: vec![7], setup: vec![ann(0, 0, 2, 1, 5)], threads: vec![vec![ann(0, 1, 2, 1, 100)], vec![POp::Clean { now: 10 }], vec![POp::Clean { now: 11 }]] });
            // 9. two ops per thread over two torrents of the same shard
            v.push(Program { deny: vec![], name: format!("two_torrents_same_shard_{}", fam), v6, torrents: vec![7, 23], setup: vec![ann(0, 0, 2, 1, 5), ann(1, 0, 2, 1, 5)], threads: vec![vec![ann(0, 1, 2, 1, 100), ann(1, 1, 2, 1, 100)], vec![POp::Clean { now: 10 }]] });
        }
        if thorough {
            // 10. announce, stop and re-announce vs clean (3 ops in one thread)
            v.push(Program { deny: vec![], name: format!("churn_vs_clean_{}", fam), v6, torrents: vec![7], setup: vec![], threads: vec![vec![ann(0, 1, 2, 1, 100), ann(0, 1, 3, 1, 100), ann(0, 1, 2, 0, 100)], vec![POp::Clean { now: 1 }, POp::Clean { now: 2 }]] });
            // 11. three announcers on an expired-only torrent and a cleaner
            v.push(Program { deny: vec![], name: format!("three_announcers_clean_{}", fam), v6, torrents: vec![7], setup: vec![ann(0, 0, 2, 1, 5)], threads: vec![vec![ann(0, 1, 2, 1, 100)], vec![ann(0, 2, 2, 0, 100)], vec![POp::Clean { now: 10 }]] });
            // 12. heap -> inline shrink by clean raced with stop and scrape
            v.push(Program { deny: vec![], name: format!("shrink_race_{}", fam), v6, torrents: vec![7], setup: vec![ann(0, 0, 2, 0, 5), ann(0, 1, 2, 1, 5), ann(0, 2, 2, 1, 100), ann(0, 3, 2, 0, 100)], threads: vec![vec![ann(0, 3, 3, 0, 100)], vec![POp::Clean { now: 10 }], vec![POp::Scrape { ts: vec![0] }]] });
        }
    }
    v
}

// ------------------------------------------------------------------ scheduler

#[derive(Clone, Debug, PartialEq)]
enum Th {
    NotStarted,
    Parked(String),
    Running,
    Finished,
}

struct SchedState {
    th: Vec<Th>,
    go: Vec<bool>,
    /// bumps on every state change; the scheduler waits on it
    epoch: u64,
}

struct Sched {
    st: Mutex<SchedState>,
    cv: Condvar,
    relevant: Mutex<BTreeSet<(bool, usize)>>, // (is_v6, shard) pairs the program touches
}

thread_local! {
    static TID: std::cell::Cell<Option<usize>> = const { std::cell::Cell::new(None) };
    static CLEAN_REFS: std::cell::Cell<usize> = const { std::cell::Cell::new(0) };
    static CLEAN_P2: std::cell::Cell<usize> = const { std::cell::Cell::new(0) };
}

static TICK: AtomicU64 = AtomicU64::new(1);

impl Sched {
    fn park(&self, tid: usize, label: &str) {
        let mut st = self.st.lock().unwrap();
        st.th[tid] = Th::Parked(label.to_string());
        st.epoch += 1;
        self.cv.notify_all();
        while !st.go[tid] {
            st = self.cv.wait(st).unwrap();
        }
        st.go[tid] = false;
        st.th[tid] = Th::Running;
        st.epoch += 1;
        self.cv.notify_all();
    }
    fn finish(&self, tid: usize) {
        let mut st = self.st.lock().unwrap();
        st.th[tid] = Th::Finished;
        st.epoch += 1;
        self.cv.notify_all();
    }
}

fn probe_handler(sched: &Arc<Sched>, name: &str) -> u32 {
    let tid = match TID.with(|t| t.get()) {
        Some(t) => t,
        None => return 0, // set-up / read-out on the main thread is never parked
    };
    // only the gaps that concern a torrent of the program are decision points
    let relevant = match name {
        "udp.swarm.clean.refs" => {
            let c = CLEAN_REFS.with(|c| {
                let v = c.get();
                c.set(v + 1);
                v
            });
            sched.relevant.lock().unwrap().contains(&(c / 16 == 1, c % 16))
        }
        "udp.swarm.clean.phase2_shard" => {
            let c = CLEAN_P2.with(|c| {
                let v = c.get();
                c.set(v + 1);
                v
            });
            sched.relevant.lock().unwrap().contains(&(c / 16 == 1, c % 16))
        }
        "udp.swarm.announce.gap" | "udp.swarm.scrape.gap" | "udp.swarm.clean.peer_map_done" => true,
        _ => false,
    };
    if relevant {
        sched.park(tid, name);
    }
    0
}

// ------------------------------------------------------------------ execution of one leaf

#[derive(Clone, Debug)]
struct Rec {
    thread: usize,
    op: POp,
    call: u64,
    ret: u64,
    reply: Reply,
}

#[derive(Clone, Debug)]
enum Reply {
    Announce { seeders: i32, leechers: i32, peers: Vec<PeerKey> },
    Scrape(Vec<(i32, i32)>),
    Clean,
}

struct Env {
    maps: TorrentMaps,
    config: Config,
    stats: aquatic_udp::common::CachePaddedArc<IpVersionStatistics<SwarmWorkerStatistics>>,
    access: Arc<AccessListArcSwap>,
    tx: crossbeam_channel::Sender<StatisticsMessage>,
}

fn exec(env: &Env, p: &Program, op: &POp, rng: &mut SmallRng) -> Reply {
    match op {
        POp::Announce { t, k, event, left, deadline, numwant } => {
            let req = announce_request(hash_of(p, *t), [5; 20], 2000 + *k as u16, *event, *left, *numwant, 0, 1);
            let vu = ValidUntil::new_raw(SecondsSinceServerStart::new_raw(*deadline));
            let r = env.maps.announce(&env.config, &env.tx, rng, &req, canonical_src(peer_ip(p.v6, *k), 9), vu);
            let d = decode_announce(&r).expect("announce reply");
            Reply::Announce { seeders: d.seeders, leechers: d.leechers, peers: d.peers }
        }
        POp::Scrape { ts } => {
            let req = ScrapeRequest { connection_id: ConnectionId::new(0), transaction_id: TransactionId::new(1), info_hashes: ts.iter().map(|t| InfoHash(hash_of(p, *t))).collect() };
            let r = env.maps.scrape(req, canonical_src(peer_ip(p.v6, 200), 9));
            Reply::Scrape(r.torrent_stats.iter().map(|s| (s.seeders.0.get(), s.leechers.0.get())).collect())
        }
        POp::Clean { now } => {
            CLEAN_REFS.with(|c| c.set(0));
            CLEAN_P2.with(|c| c.set(0));
            env.maps.clean_and_update_statistics(&env.config, &env.stats, &env.tx, &env.access, SecondsSinceServerStart::new_raw(*now), false);
            Reply::Clean
        }
    }
}

struct LeafResult {
    /// number of options at each decision point, and the option taken
    decisions: Vec<(usize, usize)>,
    schedule_labels: Vec<String>,
    records: Vec<Rec>,
    forced_switches: u64,
    deadlock: Option<String>,
    final_scrape: Vec<(i32, i32)>,
    final_members: Vec<BTreeSet<PeerKey>>,
}

fn run_leaf(p: &Program, prefix: &[usize], grace: Duration) -> LeafResult {
    let (tx, rx) = unbounded();
    let mut config = Config::default();
    config.protocol.max_response_peers = 100;
    if !p.deny.is_empty() {
        config.access_list.mode = aquatic_common::access_list::AccessListMode::Deny;
    }
    let env = Arc::new(Env { maps: TorrentMaps::default(), config, stats: Default::default(), access: Arc::new(AccessListArcSwap::default()), tx });
    let mut rng = SmallRng::seed_from_u64(1);
    for op in &p.setup {
        exec(&env, p, op, &mut rng);
    }
    if !p.deny.is_empty() {
        let mut l = aquatic_common::access_list::AccessList::default();
        for t in &p.deny {
            l.insert_from_line(&vcore::hex(&hash_of(p, *t))).unwrap();
        }
        env.access.store(Arc::new(l));
    }
    let n = p.threads.len();
    let sched = Arc::new(Sched {
        st: Mutex::new(SchedState { th: vec![Th::NotStarted; n], go: vec![false; n], epoch: 0 }),
        cv: Condvar::new(),
        relevant: Mutex::new(p.torrents.iter().map(|b| (p.v6, (*b as usize) % 16)).collect()),
    });
    {
        let s2 = sched.clone();
        aquatic_common::verif::set_probe_handler(Some(Arc::new(move |name: &str| probe_handler(&s2, name))));
    }
    let records: Arc<Mutex<Vec<Rec>>> = Arc::new(Mutex::new(Vec::new()));
    let mut handles = Vec::new();
    for (tid, ops) in p.threads.iter().enumerate() {
        let (sched, env, p2, ops, records) = (sched.clone(), env.clone(), p.clone(), ops.clone(), records.clone());
        handles.push(std::thread::spawn(move || {
            TID.with(|t| t.set(Some(tid)));
            let mut rng = SmallRng::seed_from_u64(100 + tid as u64);
            for op in ops {
                sched.park(tid, "op_start");
                let call = TICK.fetch_add(1, Ordering::SeqCst);
                let reply = exec(&env, &p2, &op, &mut rng);
                let ret = TICK.fetch_add(1, Ordering::SeqCst);
                records.lock().unwrap().push(Rec { thread: tid, op, call, ret, reply });
            }
            sched.finish(tid);
        }));
    }
    // the scheduler
    let mut decisions: Vec<(usize, usize)> = Vec::new();
    let mut labels = Vec::new();
    let mut forced = 0u64;
    let mut deadlock = None;
    let mut released_running: BTreeSet<usize> = BTreeSet::new();
    loop {
        let mut st = sched.st.lock().unwrap();
        // wait until nobody is running (or the grace period passes)
        let t0 = Instant::now();
        loop {
            let running = st.th.iter().any(|t| matches!(t, Th::Running | Th::NotStarted));
            if !running {
                break;
            }
            let left = grace.checked_sub(t0.elapsed());
            match left {
                Some(d) => {
                    let (g, _) = sched.cv.wait_timeout(st, d).unwrap();
                    st = g;
                }
                None => break,
            }
        }
        if st.th.iter().all(|t| *t == Th::Finished) {
            break;
        }
        let parked: Vec<usize> = (0..n).filter(|i| matches!(st.th[*i], Th::Parked(_))).collect();
        let stuck: Vec<usize> = (0..n).filter(|i| matches!(st.th[*i], Th::Running)).collect();
        if parked.is_empty() {
            if stuck.is_empty() {
                continue; // threads still starting
            }
            // every unfinished thread was released and none progresses: give it a long last chance
            let t1 = Instant::now();
            while t1.elapsed() < Duration::from_secs(4) && st.th.iter().any(|t| *t == Th::Running) && !st.th.iter().any(|t| matches!(t, Th::Parked(_))) {
                let (g, _) = sched.cv.wait_timeout(st, Duration::from_millis(50)).unwrap();
                st = g;
            }
            if st.th.iter().any(|t| *t == Th::Running) && !st.th.iter().any(|t| matches!(t, Th::Parked(_))) {
                deadlock = Some(format!("threads {:?} were all released, none is parked at a probe and none finishes within 4 s", stuck));
                break;
            }
            continue;
        }
        if !stuck.is_empty() {
            // a released thread does not reach its next probe: it waits for a lock held by a parked thread
            forced += 1;
        }
        released_running.clear();
        let k = decisions.len();
        let choice = if k < prefix.len() { prefix[k].min(parked.len() - 1) } else { 0 };
        decisions.push((parked.len(), choice));
        let tid = parked[choice];
        if let Th::Parked(l) = &st.th[tid] {
            labels.push(format!("t{}@{}", tid, l.trim_start_matches("udp.swarm.")));
        }
        st.go[tid] = true;
        st.th[tid] = Th::Running;
        sched.cv.notify_all();
    }
    if deadlock.is_some() {
        // threads are stuck inside the code under test; the process cannot continue
        return LeafResult { decisions, schedule_labels: labels, records: records.lock().unwrap().clone(), forced_switches: forced, deadlock, final_scrape: vec![], final_members: vec![] };
    }
    for h in handles {
        let _ = h.join();
    }
    aquatic_common::verif::set_probe_handler(None);
    for _ in rx.try_iter() {}
    // quiescent read-out: scrape + observer announce of every torrent
    let mut final_scrape = Vec::new();
    let mut final_members = Vec::new();
    let mut rng = SmallRng::seed_from_u64(2);
    for t in 0..p.torrents.len() {
        if let Reply::Scrape(v) = exec(&env, p, &POp::Scrape { ts: vec![t] }, &mut rng) {
            final_scrape.push(v[0]);
        }
        let obs = POp::Announce { t, k: 250, event: 2, left: 1, deadline: 1_000_000, numwant: i32::MAX };
        let mut big = (*env).config.clone();
        big.protocol.max_response_peers = 10_000;
        let req = announce_request(hash_of(p, t), [6; 20], 2250, 2, 1, i32::MAX, 0, 1);
        let r = env.maps.announce(&big, &env.tx, &mut rng, &req, canonical_src(peer_ip(p.v6, 250), 9), ValidUntil::new_raw(SecondsSinceServerStart::new_raw(1_000_000)));
        let d = decode_announce(&r).unwrap();
        final_members.push(d.peers.iter().copied().collect());
        let _ = obs;
    }
    let recs = records.lock().unwrap().clone();
    LeafResult { decisions, schedule_labels: labels, records: recs, forced_switches: forced, deadlock: None, final_scrape, final_members }
}

// ------------------------------------------------------------------ oracle

/// Per-torrent linearizability of one leaf. Returns Err(description) on a refuting history.
fn check_leaf(p: &Program, leaf: &LeafResult) -> Result<u64, String> {
    let mut steps = 0;
    for t in 0..p.torrents.len() {
        // initial state from the sequential set-up
        let mut init = lin::new_state();
        for op in &p.setup {
            match op {
                POp::Announce { t: tt, k, event, left, deadline, .. } if *tt == t => {
                    let key = peer_key(p.v6, *k);
                    init.remove(&key);
                    if *event != 3 {
                        init.insert(key, (*left == 0, *deadline as u64));
                    }
                }
                POp::Clean { now } => init.retain(|_, e| e.1 > *now as u64),
                _ => {}
            }
        }
        let mut ops: Vec<LOp> = Vec::new();
        for r in &leaf.records {
            match (&r.op, &r.reply) {
                (POp::Announce { t: tt, k, event, left, deadline, numwant }, Reply::Announce { seeders, leechers, peers }) if *tt == t => {
                    ops.push(LOp {
                        actor: r.thread,
                        call: r.call,
                        ret: r.ret,
                        kind: LKind::Announce { key: peer_key(p.v6, *k), stopped: *event == 3, seeder: *left == 0, deadline: *deadline as u64, seeders: *seeders as usize, leechers: *leechers as usize, peers: peers.clone(), limit: (*numwant as usize).min(100) },
                    });
                }
                (POp::Scrape { ts }, Reply::Scrape(v)) => {
                    for (j, tt) in ts.iter().enumerate() {
                        if *tt == t {
                            ops.push(LOp { actor: r.thread, call: r.call, ret: r.ret, kind: LKind::Read { seeders: v[j].0 as usize, leechers: v[j].1 as usize } });
                        }
                    }
                }
                (POp::Clean { now }, _) => {
                    ops.push(LOp { actor: r.thread, call: r.call, ret: r.ret, kind: LKind::Expire { now: *now as u64 } });
                    if p.deny.contains(&t) {
                        // phase 2 of the same pass removes the forbidden torrent: a second atomic step
                        ops.push(LOp { actor: r.thread, call: r.call, ret: r.ret, kind: LKind::Expire { now: u64::MAX } });
                    }
                }
                _ => {}
            }
        }
        // the quiescent read-out: final scrape and the exact member set seen by the observer
        let fin: BTreeMap<PeerKey, bool> = {
            // membership from the observer; seeder flags are constrained through the scrape counts
            leaf.final_members[t].iter().map(|k| (*k, false)).collect()
        };
        let end = u64::MAX - 1;
        ops.push(LOp { actor: 99, call: end - 1, ret: end, kind: LKind::Read { seeders: leaf.final_scrape[t].0 as usize, leechers: leaf.final_scrape[t].1 as usize } });
        let out = lin::check(&init, &ops, None, 2_000_000);
        steps += out.steps;
        match out.verdict {
            Verdict::Linearizable => {
                // member set check: some linearization must end with exactly the observed members.
                // (cheap form: the set of keys must be reachable - checked through a second search with final keys)
                let out2 = lin_with_members(&init, &ops, &fin);
                if !out2 {
                    return Err(format!("torrent {}: replies are linearizable but no sequential order ends with the member set the tracker can hand out afterwards: {:?}", t, leaf.final_members[t]));
                }
            }
            Verdict::NotLinearizable => {
                return Err(format!("torrent {}: no sequential order of the operations explains the replies and the final scrape {:?} (members handed out afterwards: {:?})", t, leaf.final_scrape[t], leaf.final_members[t]));
            }
            Verdict::BudgetExhausted => return Err("checker budget exhausted on a tiny history (harness bug)".into()),
        }
    }
    Ok(steps)
}

/// brute force over orders, demanding the final key set (seeder flags already pinned by the final Read)
fn lin_with_members(init: &BTreeMap<PeerKey, (bool, u64)>, ops: &[LOp], fin: &BTreeMap<PeerKey, bool>) -> bool {
    // reuse the checker with a final-state predicate on keys only: try both seeder flags through counts
    // (the final Read op in `ops` pins the counts; here only the key set matters)
    let n = ops.len();
    fn rec(state: &BTreeMap<PeerKey, (bool, u64)>, ops: &[LOp], done: u64, n: usize, fin: &BTreeMap<PeerKey, bool>, seen: &mut std::collections::HashSet<(u64, String)>) -> bool {
        if done.count_ones() as usize == n {
            return state.keys().collect::<Vec<_>>() == fin.keys().collect::<Vec<_>>();
        }
        if !seen.insert((done, format!("{:?}", state))) {
            return false;
        }
        let min_ret = (0..n).filter(|i| done & (1 << i) == 0).map(|i| ops[i].ret).min().unwrap();
        for i in 0..n {
            if done & (1 << i) != 0 || ops[i].call > min_ret {
                continue;
            }
            let single = [ops[i].clone()];
            // apply through the public checker on a one-op history to reuse its semantics
            let mut next = state.clone();
            let ok = match &single[0].kind {
                LKind::Announce { key, stopped, seeder, deadline, seeders, leechers, peers, limit } => {
                    next.remove(key);
                    let ms = next.values().filter(|e| e.0).count();
                    let others: BTreeSet<PeerKey> = next.keys().copied().collect();
                    let good = ms == *seeders && next.len() - ms == *leechers && vcore::model::check_peer_list(peers, &others, key, *limit, false).is_ok();
                    if !*stopped {
                        next.insert(*key, (*seeder, *deadline));
                    }
                    good
                }
                LKind::Read { seeders, leechers } => {
                    let ms = next.values().filter(|e| e.0).count();
                    ms == *seeders && next.len() - ms == *leechers
                }
                LKind::Expire { now } => {
                    next.retain(|_, e| e.1 > *now);
                    true
                }
            };
            if ok && rec(&next, ops, done | (1 << i), n, fin, seen) {
                return true;
            }
        }
        false
    }
    let mut seen = std::collections::HashSet::new();
    rec(init, ops, 0, n, fin, &mut seen)
}

// ------------------------------------------------------------------ driver

fn main() {
    let args = Args::parse();
    silence_panics();
    let mut report = Report::new(
        "udp_sched",
        "serialised schedule enumeration: 2-3 thread programs of announce/scrape/clean on the real shared TorrentMaps, threads parked at the lock-gap probes, one released at a time, DFS over all choices; each leaf (one real execution) checked for per-torrent linearizability incl. quiescent scrape + observer read-out; \
         non-trivial = leaf containing at least one cross-thread switch between two operations on the same torrent; distinct = hash of (program, released-thread/probe sequence)",
    );
    let thorough = args.thorough();
    let max_leaves = args.u64("max_leaves", if thorough { 60_000 } else { 2500 });
    let budget_s = args.u64("budget_s", if thorough { 500 } else { 45 });
    let grace = Duration::from_millis(args.u64("grace_ms", 60));
    let only = args.get("program").map(|s| s.to_string());

    // (a lock-order case has no program / schedule: the monitor fires in any run that covers the two code paths, so
    // its replay is the ordinary enumeration below)
    let replay_case: Option<serde_json::Value> = args.get("replay").map(|path| serde_json::from_str(&std::fs::read_to_string(path).unwrap()).unwrap()).filter(|v: &serde_json::Value| !v["program"].is_null());
    if let Some(v) = replay_case {
        let p: Program = serde_json::from_value(v["program"].clone()).unwrap();
        let prefix: Vec<usize> = v["schedule"].as_array().unwrap().iter().map(|x| x.as_u64().unwrap() as usize).collect();
        let leaf = run_leaf(&p, &prefix, grace);
        report.eval();
        println!("replay: schedule {:?}", leaf.schedule_labels);
        if let Some(d) = &leaf.deadlock {
            println!("replay: DEADLOCK {}", d);
            report.violation("udp.sched.deadlock", "deadlock", d.clone(), v.clone());
            report.finish(&args.out());
        }
        match check_leaf(&p, &leaf) {
            Ok(_) => println!("replay: leaf is linearizable"),
            Err(e) => {
                println!("replay: {}", e);
                report.violation(v["signature"].as_str().unwrap_or("udp.sched.not_linearizable"), "linearizability", e, v.clone());
            }
        }
        report.finish(&args.out());
    }

    let mut total_forced = 0u64;
    let mut exhaustive_programs = 0u64;
    let mut programs = 0u64;
    let progs = templates(thorough);
    let per_program_cap = max_leaves / progs.len().max(1) as u64 + 200;
    let n_progs = progs.iter().filter(|p| only.as_ref().map_or(true, |o| p.name.starts_with(o.as_str()))).count() as u64;
    'programs: for p in progs {
        if let Some(o) = &only {
            if !p.name.starts_with(o.as_str()) {
                continue;
            }
        }
        // time is shared fairly: each program gets an equal share of what is left (a program with expensive
        // leaves - cleaners that block everybody force 60 ms switches - must not starve the ones after it)
        let elapsed_ms = report.started.elapsed().as_millis() as u64;
        let remaining_ms = (budget_s * 1000).saturating_sub(elapsed_ms);
        let program_deadline = Instant::now() + Duration::from_millis(remaining_ms / (n_progs - programs).max(1));
        programs += 1;
        let mut prefix: Vec<usize> = Vec::new();
        let mut leaves = 0u64;
        let mut complete = false;
        loop {
            if (leaves > 0 && Instant::now() > program_deadline) || leaves >= per_program_cap {
                break;
            }
            let leaf = run_leaf(&p, &prefix, grace);
            leaves += 1;
            report.eval();
            total_forced += leaf.forced_switches;
            let sched_json = || json!({"engine":"udp_sched","program":p,"schedule":leaf.decisions.iter().map(|d| d.1).collect::<Vec<_>>(),"labels":leaf.schedule_labels});
            if let Some(d) = &leaf.deadlock {
                let mut v = sched_json();
                v["signature"] = json!("udp.sched.deadlock");
                report.violation("udp.sched.deadlock", "deadlock", format!("program {}: {} (schedule {:?})", p.name, d, leaf.schedule_labels), v);
                // stuck threads poison the process: stop here
                report.add("leaves", leaves);
                report.finish(&args.out());
            }
            match check_leaf(&p, &leaf) {
                Ok(_) => {}
                Err(e) => {
                    let lost = e.contains("member set") || leaf.final_scrape.iter().any(|x| x.0 + x.1 == 0);
                    let sig = if lost && p.name.contains("clean") { "udp.sched.announce_lost_to_clean" } else { "udp.sched.not_linearizable" };
                    let mut v = sched_json();
                    v["signature"] = json!(sig);
                    v["records"] = json!(leaf.records.iter().map(|r| format!("t{} {:?} [{}..{}] -> {:?}", r.thread, r.op, r.call, r.ret, r.reply)).collect::<Vec<_>>());
                    report.violation(sig, "linearizability", format!("program {} schedule {:?}: {}", p.name, leaf.schedule_labels, e), v);
                    continue 'programs;
                }
            }
            // non-trivial: at least one switch between threads while both have an op on the same torrent in flight
            let switches = leaf.schedule_labels.windows(2).filter(|w| w[0].split('@').next() != w[1].split('@').next() && !w[1].ends_with("op_start")).count();
            if switches > 0 {
                report.nontrivial(vcore::fnv(format!("{}|{:?}", p.name, leaf.schedule_labels).as_bytes()));
            }
            if report.samples.len() < 3 && switches > 1 {
                report.sample(json!({"program": p.name, "schedule": leaf.schedule_labels, "replies": leaf.records.iter().map(|r| format!("t{} {:?} -> {:?}", r.thread, r.op, r.reply)).collect::<Vec<_>>(), "final_scrape": leaf.final_scrape}));
            }
            // next schedule in DFS order
            let mut d = leaf.decisions.clone();
            loop {
                match d.pop() {
                    None => {
                        complete = true;
                        break;
                    }
                    Some((options, taken)) => {
                        if taken + 1 < options {
                            prefix = d.iter().map(|x| x.1).collect();
                            prefix.push(taken + 1);
                            break;
                        }
                    }
                }
            }
            if complete {
                break;
            }
        }
        if complete {
            exhaustive_programs += 1;
        }
        report.add(&format!("leaves.{}", p.name), leaves);
        report.add("leaves", leaves);
    }
    check_lock_order(&mut report, "udp_sched");
    report.add("programs", programs);
    report.add("programs_enumerated_exhaustively", exhaustive_programs);
    report.add("forced_switches(released thread blocked on a lock of a parked thread)", total_forced);
    report.extra.insert("exhaustive".into(), json!(exhaustive_programs == programs));
    report.finish(&args.out());
}
