//! C20 engine, parts 2 and 3: the full-scrape export file is replaced atomically.
//!
//! (2) a reader thread re-reads the export path in a tight loop while exports
//!     with changing content run and the export-step probes stretch the gaps:
//!     every read must be one of the complete exports, in non-decreasing order,
//!     and the path must never be missing after the first export.
//! (3) crash points: a child process performs export k+1 and abort()s inside the
//!     probe at step s (created, each line, before flush, before rename, renamed);
//!     the parent must then find export k or export k+1, complete.

use std::collections::BTreeSet;
use std::net::{IpAddr, Ipv4Addr, Ipv6Addr};
use std::process::Command;
use std::sync::atomic::{AtomicBool, AtomicU64, Ordering};
use std::sync::Arc;

use aquatic_common::access_list::AccessListArcSwap;
use aquatic_common::{SecondsSinceServerStart, ValidUntil};
use aquatic_udp::common::{IpVersionStatistics, StatisticsMessage, SwarmWorkerStatistics};
use aquatic_udp::config::Config;
use aquatic_udp::swarm::TorrentMaps;
use crossbeam_channel::unbounded;
use rand::rngs::SmallRng;
use rand::SeedableRng;
use serde_json::json;

use vcore::{Args, Report, SplitMix};
use vudp::*;

struct World {
    maps: TorrentMaps,
    config: Config,
    stats: aquatic_udp::common::CachePaddedArc<IpVersionStatistics<SwarmWorkerStatistics>>,
    access: Arc<AccessListArcSwap>,
    tx: crossbeam_channel::Sender<StatisticsMessage>,
    _rx: crossbeam_channel::Receiver<StatisticsMessage>,
    rng: SmallRng,
    /// (is_v6, torrent index) -> (seeders, leechers)
    counts: std::collections::BTreeMap<(bool, usize), (usize, usize)>,
    next_port: u16,
}

fn hash_of(t: usize) -> [u8; 20] {
    let mut h = [0x66u8; 20];
    h[0] = (t * 37) as u8;
    h[1] = t as u8;
    h
}

impl World {
    fn new(path: &str) -> Self {
        let (tx, rx) = unbounded();
        let mut config = Config::default();
        config.scrape_exports.enable_scrape_exports = true;
        config.scrape_exports.path = path.into();
        World { maps: TorrentMaps::default(), config, stats: Default::default(), access: Arc::new(AccessListArcSwap::default()), tx, _rx: rx, rng: SmallRng::seed_from_u64(1), counts: Default::default(), next_port: 1 }
    }
    fn add_peer(&mut self, v6: bool, t: usize, seeder: bool) {
        let ip: IpAddr = if v6 { IpAddr::V6(Ipv6Addr::new(0xfd00, 0, 0, 0, 0, 0, 0, 9)) } else { IpAddr::V4(Ipv4Addr::new(10, 4, 0, 9)) };
        let port = self.next_port;
        self.next_port = self.next_port.wrapping_add(1).max(1);
        let req = announce_request(hash_of(t), [1; 20], port, 2, if seeder { 0 } else { 1 }, 0, 0, 0);
        self.maps.announce(&self.config, &self.tx, &mut self.rng, &req, canonical_src(ip, 1), ValidUntil::new_raw(SecondsSinceServerStart::new_raw(1_000_000)));
        let e = self.counts.entry((v6, t)).or_insert((0, 0));
        if seeder {
            e.0 += 1
        } else {
            e.1 += 1
        }
        for _ in self._rx.try_iter() {}
    }
    fn export(&self) {
        self.maps.clean_and_update_statistics(&self.config, &self.stats, &self.tx, &self.access, SecondsSinceServerStart::new_raw(1), true);
    }
    fn expected(&self) -> BTreeSet<String> {
        self.counts.iter().map(|((v6, t), (s, l))| format!("{} {} {} {}", if *v6 { 6 } else { 4 }, vcore::hex(&hash_of(*t)), s, l)).collect()
    }
}

fn read_set(path: &str) -> Result<BTreeSet<String>, std::io::Error> {
    let text = std::fs::read_to_string(path)?;
    if !text.is_empty() && !text.ends_with('\n') {
        // a cut line can never equal a complete export
        return Ok(std::iter::once(format!("<partial> {}", text.len())).collect());
    }
    Ok(text.lines().map(|l| l.to_string()).collect())
}

const STEPS: &[&str] = &["udp.export.created", "udp.export.line", "udp.export.before_flush", "udp.export.before_rename", "udp.export.renamed"];

/// deterministic world for the crash-point scenario: `n` torrents, export k complete, then one more peer
fn crash_world(path: &str, n: usize, shape: usize) -> World {
    let mut w = World::new(path);
    for t in 0..n {
        let v6 = match shape {
            0 => false,
            1 => t % 2 == 1,
            _ => true,
        };
        for j in 0..(1 + (t + shape) % 3) {
            w.add_peer(v6, t, j % 2 == 0);
        }
    }
    w
}

fn child_crash(args: &Args) -> ! {
    let path = args.str("path", "");
    let n = args.usize("n", 3);
    let shape = args.usize("shape", 0);
    let step = args.str("step", "");
    let occurrence = args.u64("occurrence", 0);
    let mut w = crash_world(&path, n, shape);
    w.export(); // export k: complete
    w.add_peer(false, 0, true); // content changes: first torrent gains a seeder (and a new torrent appears for n == 0)
    static HITS: AtomicU64 = AtomicU64::new(0);
    let step2 = step.clone();
    aquatic_common::verif::set_probe_handler(Some(Arc::new(move |name: &str| {
        if name == step2 {
            let k = HITS.fetch_add(1, Ordering::SeqCst);
            if k == occurrence {
                unsafe { libc::abort() }
            }
        }
        0
    })));
    w.export(); // export k+1: crashes inside
    // the probe never fired (e.g. fewer lines than `occurrence`): tell the parent
    unsafe { libc::_exit(7) }
}

fn main() {
    let args = Args::parse();
    if args.flag("child_crash") {
        child_crash(&args);
    }
    silence_panics();
    let mut report = Report::new(
        "udp_export",
        "scrape export atomicity: (a) concurrent reader during N exports with changing content and stretched gaps between the export steps - every read equals one complete export, never older than an earlier read, path never missing; (b) child process aborted inside the probe at every individual step of an export (created, each line, before flush, before rename, after rename) - the path then holds the previous or the new complete export; \
         non-trivial = read that raced an export in progress / crash point; distinct = (export number observed while k+1 in progress) / (step, occurrence, shape)",
    );
    let tmp = format!("{}/udp_export_{}", args.str("tmpdir", "/verif/evidence/tmp"), std::process::id());
    std::fs::create_dir_all(&tmp).unwrap();
    let seed = args.seed();
    let mut meta = SplitMix::new(seed).fork(0xC20);

    // ---------------- (a) concurrent reader
    let n_exports = args.u64("exports", if args.thorough() { 3000 } else { 400 });
    {
        let path = format!("{}/export.txt", tmp);
        let mut w = World::new(&path);
        let in_progress = Arc::new(AtomicU64::new(0)); // number of the export being written
        let completed = Arc::new(AtomicU64::new(0));
        let stop = Arc::new(AtomicBool::new(false));
        let expected: Arc<std::sync::Mutex<Vec<BTreeSet<String>>>> = Arc::new(std::sync::Mutex::new(vec![BTreeSet::new()]));
        // stretch the gaps between the export steps
        let stretch_seed = meta.next();
        aquatic_common::verif::set_probe_handler(Some(Arc::new(move |name: &str| {
            if name.starts_with("udp.export.") {
                let mut r = SplitMix::new(stretch_seed ^ vcore::fnv(name.as_bytes()) ^ TICKS.fetch_add(1, Ordering::Relaxed));
                match r.below(4) {
                    0 => std::thread::yield_now(),
                    1 => std::thread::sleep(std::time::Duration::from_micros(r.below(300))),
                    _ => {}
                }
            }
            0
        })));
        static TICKS: AtomicU64 = AtomicU64::new(0);
        let reader = {
            let (path, in_progress, completed, stop, expected) = (path.clone(), in_progress.clone(), completed.clone(), stop.clone(), expected.clone());
            std::thread::spawn(move || {
                let mut last_seen = 0usize;
                let mut reads = 0u64;
                let mut raced = BTreeSet::new();
                let mut problems: Vec<String> = Vec::new();
                while !stop.load(Ordering::SeqCst) {
                    let done_before = completed.load(Ordering::SeqCst);
                    let prog = in_progress.load(Ordering::SeqCst);
                    match read_set(&path) {
                        Err(e) => {
                            if done_before >= 1 {
                                problems.push(format!("path unreadable after export {} completed: {}", done_before, e));
                                break;
                            }
                        }
                        Ok(set) => {
                            reads += 1;
                            let exp = expected.lock().unwrap();
                            // the newest export this content can be (search from the newest backwards, not older than what we saw)
                            let found = (last_seen..exp.len()).rev().find(|k| exp[*k] == set);
                            match found {
                                Some(k) => {
                                    if prog > done_before {
                                        raced.insert((k as u64, prog));
                                    }
                                    last_seen = k;
                                }
                                None => {
                                    let older = (0..last_seen).rev().find(|k| exp[*k] == set);
                                    problems.push(match older {
                                        Some(k) => format!("read returned export {} after export {} had been seen", k, last_seen),
                                        None => format!("read during export {} returned {} line(s) that match no complete export (first: {:?})", prog, set.len(), set.iter().next()),
                                    });
                                    break;
                                }
                            }
                        }
                    }
                }
                (reads, raced.len() as u64, problems)
            })
        };
        for k in 1..=n_exports {
            let t = meta.usize(6);
            w.add_peer(meta.chance(1, 3), t, meta.chance(1, 2));
            expected.lock().unwrap().push(w.expected());
            in_progress.store(k, Ordering::SeqCst);
            w.export();
            completed.store(k, Ordering::SeqCst);
            // after the export returned, the path must hold exactly export k
            match read_set(&path) {
                Ok(set) if set == w.expected() => {}
                other => {
                    report.violation("udp.export.content_after_return", "export", format!("after export {} returned the path holds {:?}", k, other.map(|s| s.len())), json!({"engine":"udp_export","part":"reader","export":k}));
                    break;
                }
            }
            report.eval();
        }
        stop.store(true, Ordering::SeqCst);
        let (reads, raced, problems) = reader.join().unwrap();
        aquatic_common::verif::set_probe_handler(None);
        report.evals(reads);
        report.add("reader.reads", reads);
        report.add("reader.reads_while_an_export_was_in_progress(distinct export pairs)", raced);
        report.distinct_extra += raced;
        for p in problems {
            report.violation("udp.export.reader_saw_incomplete_or_missing", "export", p, json!({"engine":"udp_export","part":"reader","seed":seed}));
        }
        if raced < 2 && report.violations.is_empty() {
            report.inconclusive("the reader never raced an export in progress");
        }
    }

    // ---------------- (b) crash points
    let exe = std::env::current_exe().unwrap();
    let mut crash_points = 0u64;
    let replay = args.get("replay").map(|p| serde_json::from_str::<serde_json::Value>(&std::fs::read_to_string(p).unwrap()).unwrap());
    let shapes: Vec<usize> = vec![0, 1, 2];
    let sizes: Vec<usize> = if args.thorough() { vec![1, 2, 3, 5, 8, 13, 20] } else { vec![1, 3, 8, 20] };
    let mut cases: Vec<(usize, usize, String, u64)> = Vec::new();
    if let Some(r) = &replay {
        if r["part"] == "crash" {
            cases.push((r["n"].as_u64().unwrap() as usize, r["shape"].as_u64().unwrap() as usize, r["step"].as_str().unwrap().to_string(), r["occurrence"].as_u64().unwrap()));
        }
    } else {
        for n in sizes {
            for shape in shapes.iter() {
                for step in STEPS {
                    let occ = if *step == "udp.export.line" { n as u64 } else { 1 };
                    for o in 0..occ {
                        cases.push((n, *shape, step.to_string(), o));
                    }
                }
            }
        }
    }
    let results: std::sync::Mutex<Vec<(usize, usize, String, u64, Result<&'static str, String>)>> = std::sync::Mutex::new(Vec::new());
    let work = std::sync::Mutex::new(cases);
    std::thread::scope(|s| {
        for wkr in 0..8 {
            let (work, results, exe, tmp) = (&work, &results, &exe, &tmp);
            s.spawn(move || loop {
                let item = work.lock().unwrap().pop();
                let (n, shape, step, occ) = match item {
                    Some(x) => x,
                    None => break,
                };
                let path = format!("{}/crash_{}_{}_{}_{}_{}.txt", tmp, wkr, n, shape, step.replace('.', "_"), occ);
                let _ = std::fs::remove_file(&path);
                let status = Command::new(exe).args(["--child_crash", "--path", &path, "--n", &n.to_string(), "--shape", &shape.to_string(), "--step", &step, "--occurrence", &occ.to_string()]).stdout(std::process::Stdio::null()).stderr(std::process::Stdio::null()).status().unwrap();
                // reference contents
                let mut w = crash_world("/dev/null/unused", n, shape);
                let prev = w.expected();
                w.add_peer(false, 0, true);
                let next = w.expected();
                let verdict: Result<&'static str, String> = if status.code() == Some(7) {
                    Err("INCONCLUSIVE: probe never fired".to_string())
                } else {
                    match read_set(&path) {
                        Err(e) => Err(format!("export path missing / unreadable after a crash at {} #{}: {}", step, occ, e)),
                        Ok(set) if set == prev => Ok("previous"),
                        Ok(set) if set == next => Ok("new"),
                        Ok(set) => Err(format!("after a crash at {} #{} the path holds {} line(s) matching neither the previous ({} lines) nor the new ({} lines) complete export", step, occ, set.len(), prev.len(), next.len())),
                    }
                };
                let _ = std::fs::remove_file(&path);
                let _ = std::fs::remove_file(std::path::Path::new(&path).with_extension("tmp"));
                results.lock().unwrap().push((n, shape, step, occ, verdict));
            });
        }
    });
    for (n, shape, step, occ, verdict) in results.into_inner().unwrap() {
        report.eval();
        crash_points += 1;
        match verdict {
            Ok(which) => {
                report.nontrivial(vcore::fnv(format!("{}/{}/{}/{}", n, shape, step, occ).as_bytes()));
                report.count(&format!("crash.{}.found_{}", step.trim_start_matches("udp.export."), which));
                if report.samples.len() < 3 && step == "udp.export.line" {
                    report.sample(json!({"torrents": n, "shape": shape, "abort_at": step, "occurrence": occ, "path_holds": which}));
                }
            }
            Err(e) if e.starts_with("INCONCLUSIVE") => report.inconclusive(format!("crash point {} #{} (n={}, shape={}): probe never fired", step, occ, n, shape)),
            Err(e) => report.violation(&format!("udp.export.crash_at_{}", step.trim_start_matches("udp.export.")), "export", e, json!({"engine":"udp_export","part":"crash","n":n,"shape":shape,"step":step,"occurrence":occ})),
        }
    }
    report.add("crash_points", crash_points);
    let _ = std::fs::remove_dir_all(&tmp);
    report.finish(&args.out());
}
