//! select_enum engine, UDP part (C02): peer selection of the real
//! `TorrentMaps::announce` over swarm sizes x limits x requester positions,
//! sweeping the SmallRng stream. Verdict = pure predicate `check_peer_list`;
//! offsets are inferred from the returned positions for coverage accounting.

use std::collections::{BTreeMap, BTreeSet};
use std::net::{IpAddr, Ipv4Addr, Ipv6Addr};

use aquatic_common::{SecondsSinceServerStart, ValidUntil};
use aquatic_udp::common::StatisticsMessage;
use aquatic_udp::config::Config;
use aquatic_udp::swarm::TorrentMaps;
use crossbeam_channel::unbounded;
use rand::rngs::SmallRng;
use rand::SeedableRng;
use serde_json::json;

use vcore::model::{check_peer_list, PeerKey};
use vcore::{Args, Report, SplitMix};
use vudp::*;

fn ip_of(v6: bool, i: usize) -> IpAddr {
    if v6 {
        IpAddr::V6(Ipv6Addr::new(0xfd00, 0, 0, 0, 0, 0, (i >> 16) as u16, i as u16))
    } else {
        IpAddr::V4(Ipv4Addr::new(10, 1, (i >> 8) as u8, i as u8))
    }
}

struct Case {
    size: usize,
    max: usize,
    numwant: i32,
    /// None = requester not a member; Some(j) = requester is the j-th inserted member
    pos: Option<usize>,
    v6: bool,
}

fn main() {
    let args = Args::parse();
    silence_panics();
    let mut report = Report::new(
        "udp_select",
        "udp announce peer selection: swarm size x (numwant, max_response_peers) x requester position (absent / every insertion index), many SmallRng draws per case, decoy torrent and other family populated; \
         non-trivial = case takes the two-half-range branch (others > limit); distinct = (size, limit, position, inferred offset pair)",
    );
    let seed = args.seed();
    let thorough = args.thorough();
    let max_size = args.usize("max_size", if thorough { 130 } else { 40 });
    let full_cover_size = args.usize("full_cover_size", 16);
    let mut meta = SplitMix::new(seed).fork(0xC02);
    let (tx, rx) = unbounded::<StatisticsMessage>();
    let mut rng = SmallRng::seed_from_u64(meta.next());
    let vu = ValidUntil::new_with_now(SecondsSinceServerStart::new_raw(0), 1000);
    let mut config = Config::default();
    let mut hash_counter: u32 = 0;
    let mut uncovered_cases = 0u64;
    let mut pairs_possible_total = 0u64;
    let mut pairs_seen_total = 0u64;
    let t0 = std::time::Instant::now();
    let budget_s = args.u64("budget_s", if thorough { 240 } else { 40 });

    // replay: a single case with a given rng seed
    let replay = args.get("replay").map(|p| serde_json::from_str::<serde_json::Value>(&std::fs::read_to_string(p).unwrap()).unwrap());

    let mut cases: Vec<Case> = Vec::new();
    if let Some(r) = &replay {
        cases.push(Case {
            size: r["size"].as_u64().unwrap() as usize,
            max: r["max"].as_u64().unwrap() as usize,
            numwant: r["numwant"].as_i64().unwrap() as i32,
            pos: r["pos"].as_u64().map(|x| x as usize),
            v6: r["v6"].as_bool().unwrap(),
        });
        rng = SmallRng::seed_from_u64(r["rng_seed"].as_u64().unwrap());
    } else {
        for size in args.usize("min_size", 0)..=max_size {
            let limits: Vec<usize> = if size <= 24 { (0..=size + 3).collect() } else { vec![0, 1, 2, 3, size / 2, size - 2, size - 1, size, size + 1] };
            for limit in limits {
                let positions: Vec<Option<usize>> = if size <= 12 {
                    std::iter::once(None).chain((0..size).map(Some)).collect()
                } else {
                    let mut v = vec![None, Some(0), Some(1), Some(size / 2 - 1), Some(size / 2), Some(size / 2 + 1), Some(size - 2), Some(size - 1)];
                    v.dedup();
                    v
                };
                for pos in positions {
                    // the limit is realised either through numwant or through the configured maximum
                    let via_numwant = meta.chance(1, 2);
                    let (max, numwant) = if via_numwant && limit > 0 {
                        (limit + 1 + meta.usize(5), limit as i32)
                    } else {
                        (limit, *meta.pick(&[0i32, -1, i32::MIN, limit as i32 + 7, i32::MAX]))
                    };
                    cases.push(Case { size, max, numwant, pos, v6: meta.chance(1, 3) });
                }
            }
        }
    }

    'outer: for case in cases.iter() {
        if t0.elapsed().as_secs() >= budget_s {
            report.note(format!("time budget reached before size {}", case.size));
            break;
        }
        config.protocol.max_response_peers = case.max;
        let limit = if case.numwant <= 0 { case.max } else { (case.numwant as usize).min(case.max) };
        let n_others = match case.pos {
            None => case.size,
            Some(_) => case.size.saturating_sub(1),
        };
        // range sizes of the two offsets (coverage accounting only)
        let over = n_others > limit;
        let draws = if replay.is_some() {
            1
        } else if !over {
            2
        } else if case.pos.is_none() {
            if case.size <= full_cover_size { 1500 } else if case.size <= 40 { 300 } else { 60 }
        } else {
            24
        };
        // interpreter runs (Miri) cap the draws per case; full offset-pair coverage is then not demanded (--full_cover_size 0)
        let draws = draws.min(args.usize("draws_cap", usize::MAX));
        let mut seen_pairs: BTreeSet<(usize, usize)> = BTreeSet::new();
        let mut maps = TorrentMaps::default();
        let mut built = false;
        let mut hash = [0u8; 20];
        let mut order: Vec<u16> = Vec::new(); // shadow of insertion order (ports), coverage accounting only
        for d in 0..draws {
            if !built || case.pos.is_some() {
                // (re)build: members get ports 1..=size; decoy torrent and the other family hold disjoint keys
                maps = TorrentMaps::default();
                hash_counter += 1;
                hash = [0x11u8; 20];
                hash[..4].copy_from_slice(&hash_counter.to_be_bytes());
                let mut decoy = hash;
                decoy[19] ^= 0xff;
                let mut cfg_big = config.clone();
                cfg_big.protocol.max_response_peers = 0;
                order.clear();
                for m in 0..case.size {
                    let port = 1 + m as u16;
                    let left = if m % 3 == 0 { 0 } else { 1 };
                    let req = announce_request(hash, [1; 20], port, 2, left, 0, 0, 0);
                    maps.announce(&cfg_big, &tx, &mut rng, &req, canonical_src(ip_of(case.v6, m), 1), vu);
                    order.push(port);
                    // decoys: same address in another torrent; another address family in the same torrent
                    let dreq = announce_request(decoy, [2; 20], port, 2, 1, 0, 0, 0);
                    maps.announce(&cfg_big, &tx, &mut rng, &dreq, canonical_src(ip_of(case.v6, m), 1), vu);
                    let oreq = announce_request(hash, [3; 20], 10_000 + port, 2, 1, 0, 0, 0);
                    maps.announce(&cfg_big, &tx, &mut rng, &oreq, canonical_src(ip_of(!case.v6, 5000 + m), 1), vu);
                }
                built = true;
                for _ in rx.try_iter() {}
            }
            let (req_ip, req_port) = match case.pos {
                Some(j) => (ip_of(case.v6, j), 1 + j as u16),
                None => (ip_of(case.v6, 60_000), 60_000u16),
            };
            let request = announce_request(hash, [4; 20], req_port, 0, 1, case.numwant, 0, d as i32);
            let resp = maps.announce(&config, &tx, &mut rng, &request, canonical_src(req_ip, 1), vu);
            let reply = decode_announce(&resp).expect("announce reply");
            report.eval();
            let requester = PeerKey { ip: req_ip, port: req_port };
            let others: BTreeSet<PeerKey> = (0..case.size).filter(|m| Some(*m) != case.pos).map(|m| PeerKey { ip: ip_of(case.v6, m), port: 1 + m as u16 }).collect();
            if let Err(e) = check_peer_list(&reply.peers, &others, &requester, limit, false) {
                report.violation(
                    "udp.select.predicate",
                    "peerlist",
                    format!("size {} limit {} (numwant {}, max {}) requester {:?}: {}", case.size, limit, case.numwant, case.max, case.pos, e),
                    json!({"engine":"udp_select","size":case.size,"max":case.max,"numwant":case.numwant,"pos":case.pos,"v6":case.v6,"rng_seed": seed, "draw": d}),
                );
                continue 'outer;
            }
            if reply.is_v4 == case.v6 {
                report.violation("udp.select.family", "peerlist", "reply of the wrong family".to_string(), json!({"engine":"udp_select","size":case.size,"max":case.max,"numwant":case.numwant,"pos":case.pos,"v6":case.v6,"rng_seed": seed}));
                continue 'outer;
            }
            if over {
                // infer the two offsets from the positions of the returned peers in the shadow order
                if let Some(j) = case.pos {
                    // requester was swap-removed before selection: last member moved into its slot
                    let mut o: Vec<u16> = (1..=case.size as u16).collect();
                    o.swap_remove(j);
                    order = o;
                }
                let idx: Vec<usize> = reply.peers.iter().filter_map(|p| order.iter().position(|x| *x == p.port)).collect();
                let per_half = limit / 2;
                if per_half > 0 && idx.len() == 2 * per_half {
                    let pair = (idx[0], idx[per_half]);
                    seen_pairs.insert(pair);
                    report.nontrivial(vcore::fnv(format!("{}/{}/{:?}/{:?}", case.size, limit, case.pos, pair).as_bytes()));
                } else {
                    report.nontrivial(vcore::fnv(format!("{}/{}/{:?}/-", case.size, limit, case.pos).as_bytes()));
                }
            }
            if case.pos.is_none() {
                // leave again; removing the last inserted member keeps the order of the others
                let stop = announce_request(hash, [4; 20], req_port, 3, 1, 0, 0, 0);
                maps.announce(&config, &tx, &mut rng, &stop, canonical_src(req_ip, 1), vu);
            }
            if d % 64 == 0 {
                for _ in rx.try_iter() {}
            }
        }
        if over && case.pos.is_none() && replay.is_none() {
            let n = n_others;
            let mid = n / 2;
            let per_half = limit / 2;
            if per_half > 0 {
                let r1 = usize::max(1, mid - per_half);
                let r2 = usize::max(mid + 1, n - per_half) - mid;
                let possible = (r1 * r2) as u64;
                pairs_possible_total += possible;
                pairs_seen_total += (seen_pairs.len() as u64).min(possible);
                report.count("over_limit_cases_requester_absent");
                if case.size <= full_cover_size && (seen_pairs.len() as u64) < possible {
                    uncovered_cases += 1;
                    if uncovered_cases <= 3 {
                        report.note(format!("size {} limit {}: {} of {} offset pairs drawn", case.size, limit, seen_pairs.len(), possible));
                    }
                }
            }
        }
        if report.samples.len() < 3 && over {
            report.sample(json!({"size":case.size,"max_response_peers":case.max,"numwant":case.numwant,"requester_index":case.pos,"ipv6":case.v6,"draws":draws,"offset_pairs_seen":seen_pairs.len()}));
        }
    }
    report.add("cases", cases.len() as u64);
    report.add("offset_pairs_possible(requester absent)", pairs_possible_total);
    report.add("offset_pairs_seen(requester absent)", pairs_seen_total);
    report.add("cases_with_undrawn_offset_pair(size<=full_cover_size)", uncovered_cases);
    let mut extra = BTreeMap::new();
    extra.insert("max_size".to_string(), json!(max_size));
    extra.insert("full_cover_size".to_string(), json!(full_cover_size));
    report.extra = extra;
    if uncovered_cases > 0 && report.violations.is_empty() && replay.is_none() {
        report.inconclusive(format!("{} small cases in which some offset pair was never drawn", uncovered_cases));
    }
    report.finish(&args.out());
}
