//! swarm_diff engine for the UDP tracker: the real `TorrentMaps` driven
//! single-threaded through random histories, compared after every operation
//! with the reference model (vcore::model). Serves C01, C02 (embedded),
//! C03 (in-request ip field / mapped sources), C10 (time component),
//! C11 (clean vs access list), C12 (field extremes), C20 (totals, tallies, export).

use std::collections::{BTreeMap, BTreeSet};
use std::net::{IpAddr, Ipv4Addr, Ipv6Addr};
use std::panic::{catch_unwind, AssertUnwindSafe};
use std::sync::atomic::Ordering;
use std::sync::Arc;

use aquatic_common::access_list::{AccessList, AccessListArcSwap, AccessListMode};
use aquatic_common::{SecondsSinceServerStart, ValidUntil};
use aquatic_udp::common::{IpVersionStatistics, StatisticsMessage, SwarmWorkerStatistics};
use aquatic_udp::config::Config;
use aquatic_udp::swarm::TorrentMaps;
use aquatic_udp_protocol::*;
use crossbeam_channel::unbounded;
use rand::rngs::SmallRng;
use rand::SeedableRng;
use serde::{Deserialize, Serialize};
use serde_json::json;

use vcore::model::{check_peer_list, Fam, Model, PeerKey};
use vcore::{Args, Report, SplitMix};
use vudp::*;

const CAP: usize = 2; // inline representation capacity (coverage accounting only)

#[derive(Serialize, Deserialize, Clone, Debug)]
enum Op {
    Announce {
        t: usize,
        src: usize,
        port: u16,
        event: u8,
        left: i64,
        numwant: i32,
        pid: usize,
        ip_field: u32,
        lag: u32,
    },
    Scrape {
        v6: bool,
        ts: Vec<usize>,
    },
    Clean {
        advance: u32,
        export: bool,
    },
    Observe {
        t: usize,
        v6: bool,
    },
    SetList {
        list: Vec<usize>,
    },
}

#[derive(Serialize, Deserialize, Clone, Debug)]
struct History {
    max_response_peers: usize,
    max_peer_age: u32,
    start_clock: u32,
    mode: u8, // 0 off, 1 allow, 2 deny
    initial_list: Vec<usize>,
    histograms: bool,
    torrents: Vec<String>,
    sources: Vec<String>,
    peer_ids: Vec<String>,
    rng_seed: u64,
    ops: Vec<Op>,
}

#[derive(Default)]
struct Shape {
    // sequence of abstract events, hashed for "distinct" accounting
    seq: Vec<u8>,
    nontrivial: bool,
    counters: BTreeMap<&'static str, u64>,
}

impl Shape {
    fn ev(&mut self, code: u8) {
        self.seq.push(code);
    }
    fn cnt(&mut self, k: &'static str) {
        *self.counters.entry(k).or_insert(0) += 1;
    }
}

struct Fail {
    op_index: usize,
    clause: &'static str,
    signature: String,
    detail: String,
}

fn mode_of(m: u8) -> AccessListMode {
    match m {
        1 => AccessListMode::Allow,
        2 => AccessListMode::Deny,
        _ => AccessListMode::Off,
    }
}

fn make_list(h: &History, idx: &[usize]) -> AccessList {
    let mut l = AccessList::default();
    for i in idx {
        l.insert_from_line(&h.torrents[*i % h.torrents.len()]).unwrap();
    }
    l
}

fn hash_of(h: &History, t: usize) -> [u8; 20] {
    if t < h.torrents.len() {
        vcore::unhex(&h.torrents[t]).try_into().unwrap()
    } else {
        // unknown torrent: never announced
        let mut a = [0xEEu8; 20];
        a[0] = t as u8;
        a[19] = (t >> 8) as u8;
        a
    }
}

/// property this process checks (set once in main): a failing clause that does not belong to it must not end the
/// history, or it would mask a later failure of a clause that does (one change often breaks several clauses)
static FOCUS: std::sync::OnceLock<String> = std::sync::OnceLock::new();
static OTHER_CLAUSE_FAILURES: std::sync::atomic::AtomicU64 = std::sync::atomic::AtomicU64::new(0);

macro_rules! bail {
    ($f:expr) => {{
        let f = $f;
        if relevant(FOCUS.get().map(|s| s.as_str()).unwrap_or(""), f.clause) {
            return Err(f);
        }
        OTHER_CLAUSE_FAILURES.fetch_add(1, std::sync::atomic::Ordering::Relaxed);
    }};
}

fn run_history(h: &History, export_dir: &str, shape: &mut Shape) -> Result<u64, Fail> {
    // a panic anywhere in the code under test (also at call sites of the read-out) is a refuting observation, not a harness crash
    match catch_unwind(AssertUnwindSafe(|| run_history_inner(h, export_dir, shape))) {
        Ok(r) => r,
        Err(p) => Err(Fail { op_index: h.ops.len().saturating_sub(1), clause: "panic", signature: format!("udp.swarm.panic:{}", panic_text(&*p)), detail: format!("the tracker code panicked during this history: {}", panic_text(&*p)) }),
    }
}

fn run_history_inner(h: &History, export_dir: &str, shape: &mut Shape) -> Result<u64, Fail> {
    let mut config = Config::default();
    config.protocol.max_response_peers = h.max_response_peers;
    config.cleaning.max_peer_age = h.max_peer_age;
    config.statistics.interval = 1;
    config.statistics.write_html_to_file = true; // makes statistics "active"; no worker runs here
    config.statistics.peer_clients = true;
    config.statistics.torrent_peer_histograms = h.histograms;
    config.access_list.mode = mode_of(h.mode);
    config.scrape_exports.enable_scrape_exports = true;
    config.scrape_exports.path = format!("{}/export.txt", export_dir).into();

    let mut observer_config = config.clone();
    observer_config.protocol.max_response_peers = 100_000;

    let maps = TorrentMaps::default();
    let mut model = Model::new();
    let access_list: Arc<AccessListArcSwap> = Arc::new(AccessListArcSwap::from_pointee(make_list(h, &h.initial_list)));
    let mut list_now: BTreeSet<[u8; 20]> = h.initial_list.iter().map(|i| hash_of(h, *i % h.torrents.len())).collect();
    let statistics: aquatic_udp::common::CachePaddedArc<IpVersionStatistics<SwarmWorkerStatistics>> = Default::default();
    let (stat_tx, stat_rx) = unbounded::<StatisticsMessage>();
    let mut rng = SmallRng::seed_from_u64(h.rng_seed);
    let mut tally: BTreeMap<[u8; 20], i64> = BTreeMap::new();
    let mut is_large: BTreeMap<(Fam, [u8; 20]), bool> = BTreeMap::new();
    let mut clock: u32 = h.start_clock;
    let mut ops_done = 0u64;
    let mut observer_port: u16 = 40000;

    let sources: Vec<IpAddr> = h.sources.iter().map(|s| s.parse().unwrap()).collect();
    let peer_ids: Vec<[u8; 20]> = h.peer_ids.iter().map(|s| vcore::unhex(s).try_into().unwrap()).collect();

    let allowed = |list: &BTreeSet<[u8; 20]>, mode: u8, hash: &[u8; 20]| -> bool {
        match mode {
            1 => list.contains(hash),
            2 => !list.contains(hash),
            _ => true,
        }
    };

    // Folding rule of the statistics worker: +1 on PeerAdded, -1 on PeerRemoved
    let drain = |tally: &mut BTreeMap<[u8; 20], i64>| {
        for m in stat_rx.try_iter() {
            match m {
                StatisticsMessage::PeerAdded(id) => *tally.entry(id.0).or_insert(0) += 1,
                StatisticsMessage::PeerRemoved(id) => {
                    // the worker ignores removals of unknown ids and drops entries at zero
                    if let Some(c) = tally.get_mut(&id.0) {
                        *c -= 1;
                        if *c == 0 {
                            tally.remove(&id.0);
                        }
                    }
                }
                _ => {}
            }
        }
    };

    for (i, op) in h.ops.iter().enumerate() {
        let fail = |clause: &'static str, signature: &str, detail: String| Fail {
            op_index: i,
            clause,
            signature: signature.to_string(),
            detail,
        };
        match op {
            Op::Announce {
                t,
                src,
                port,
                event,
                left,
                numwant,
                pid,
                ip_field,
                lag,
            } => {
                let hash = hash_of(h, *t);
                let src_ip = sources[*src % sources.len()];
                let canon = canonical_ip(src_ip);
                let key = PeerKey { ip: canon, port: *port };
                let fam = Fam::of(&canon);
                let peer_id = peer_ids[*pid % peer_ids.len()];
                let sample = clock.saturating_sub(*lag);
                let request = announce_request(hash, peer_id, *port, *event, *left, *numwant, *ip_field, i as i32);
                let stopped = (*event & 3) == 3;
                let seeder = *left == 0;
                let deadline = sample as u64 + h.max_peer_age as u64;

                let result = catch_unwind(AssertUnwindSafe(|| {
                    let valid_until = ValidUntil::new_with_now(SecondsSinceServerStart::new_raw(sample), h.max_peer_age);
                    maps.announce(&config, &stat_tx, &mut rng, &request, canonical_src(src_ip, 7000), valid_until)
                }));
                let response = match result {
                    Ok(r) => r,
                    Err(p) => {
                        let text = panic_text(&*p);
                        let sig = if text.contains("overflow") && h.max_peer_age as u64 + sample as u64 > u32::MAX as u64 {
                            "common.valid_until.u32_overflow".to_string()
                        } else {
                            format!("udp.swarm.announce.panic:{}", text)
                        };
                        return Err(fail("panic", &sig, format!("announce panicked: {}", text)));
                    }
                };
                let size_before = model.size(fam, &hash);
                let view = model.announce(hash, key, stopped, seeder, deadline, peer_id);
                let reply = match decode_announce(&response) {
                    Some(r) => r,
                    None => return Err(fail("reply_kind", "udp.swarm.announce.reply_kind", format!("announce produced {:?}", response))),
                };
                if reply.is_v4 != (fam == Fam::V4) {
                    bail!(fail("family", "udp.swarm.announce.family", format!("source {:?} (canonical {:?}) answered with is_v4={}", src_ip, canon, reply.is_v4)));
                }
                if reply.tid != i as i32 {
                    bail!(fail("reply_kind", "udp.swarm.announce.tid", "transaction id not echoed".into()));
                }
                if reply.seeders as i64 != view.seeders as i64 || reply.leechers as i64 != view.leechers as i64 {
                    return Err(fail(
                        "counts",
                        "udp.swarm.announce.counts",
                        format!("announce reply seeders/leechers {}/{} but reference says {}/{} (excluding announcer)", reply.seeders, reply.leechers, view.seeders, view.leechers),
                    ));
                }
                let limit = if *numwant <= 0 { h.max_response_peers } else { (*numwant as usize).min(h.max_response_peers) };
                if let Err(e) = check_peer_list(&reply.peers, &view.others, &key, limit, false) {
                    bail!(fail("peerlist", "udp.swarm.announce.peerlist", e));
                }
                // coverage accounting: representation shadow
                let large = is_large.entry((fam, hash)).or_insert(false);
                let others = view.others.len();
                if !*large {
                    if others == CAP && !stopped {
                        *large = true;
                        shape.ev(1);
                        shape.cnt("small_to_large");
                        shape.nontrivial = true;
                    }
                } else if stopped && others <= CAP {
                    *large = false;
                    shape.ev(2);
                    shape.cnt("large_to_small_by_stop");
                    shape.nontrivial = true;
                }
                if let Some(prev) = &view.previous {
                    if prev.seeder && (stopped || !seeder) {
                        shape.ev(3);
                        shape.cnt("seeder_removed_or_demoted");
                        shape.nontrivial = true;
                    }
                    if prev.peer_id != peer_id {
                        shape.cnt("peer_id_changed_on_reannounce");
                    }
                    shape.cnt("reannounce");
                }
                if canon != src_ip {
                    shape.cnt("ipv4_mapped_source");
                }
                if *numwant <= 0 {
                    shape.cnt("numwant_nonpositive");
                }
                if others > limit {
                    shape.cnt("selection_over_limit");
                }
                shape.ev(10 + (*event & 3) + if seeder { 4 } else { 0 });
                let _ = size_before;
                // peer-client tallies are checked at cleans, but fold now to keep the channel short
                drain(&mut tally);
            }
            Op::Scrape { v6, ts } => {
                let fam = if *v6 { Fam::V6 } else { Fam::V4 };
                let src_ip: IpAddr = if *v6 { "fd00::99".parse().unwrap() } else { "10.9.9.9".parse().unwrap() };
                let hashes: Vec<[u8; 20]> = ts.iter().map(|t| hash_of(h, *t)).collect();
                let request = ScrapeRequest {
                    connection_id: ConnectionId::new(0),
                    transaction_id: TransactionId::new(i as i32),
                    info_hashes: hashes.iter().map(|x| InfoHash(*x)).collect(),
                };
                let result = catch_unwind(AssertUnwindSafe(|| maps.scrape(request, canonical_src(src_ip, 7000))));
                let response = match result {
                    Ok(r) => r,
                    Err(p) => return Err(fail("panic", &format!("udp.swarm.scrape.panic:{}", panic_text(&*p)), "scrape panicked".into())),
                };
                if response.torrent_stats.len() != hashes.len() {
                    bail!(fail("scrape", "udp.swarm.scrape.len", format!("{} entries for {} hashes", response.torrent_stats.len(), hashes.len())));
                }
                for (j, hash) in hashes.iter().enumerate() {
                    let (s, l) = model.scrape(fam, hash);
                    let st = &response.torrent_stats[j];
                    if st.seeders.0.get() as i64 != s as i64 || st.leechers.0.get() as i64 != l as i64 || st.completed.0.get() != 0 {
                        return Err(fail(
                            "counts",
                            "udp.swarm.scrape.counts",
                            format!("scrape entry {} = {}/{} (completed {}) but reference says {}/{}", j, st.seeders.0.get(), st.leechers.0.get(), st.completed.0.get(), s, l),
                        ));
                    }
                }
                shape.ev(30);
            }
            Op::Observe { t, v6 } => {
                // Observer announce: fresh key, numwant >= swarm, huge configured max:
                // the reply must contain exactly the reference set ("able to hand out").
                let hash = hash_of(h, *t);
                let fam = if *v6 { Fam::V6 } else { Fam::V4 };
                let src_ip: IpAddr = if *v6 { "fd00::77".parse().unwrap() } else { "10.7.7.7".parse().unwrap() };
                observer_port = observer_port.wrapping_add(1).max(40000);
                let key = PeerKey { ip: src_ip, port: observer_port };
                let request = announce_request(hash, [0x0b; 20], observer_port, 2, 1, i32::MAX, 0, i as i32);
                let sample = clock;
                let resp = catch_unwind(AssertUnwindSafe(|| {
                    // short-lived entry; deadline irrelevant because it is stopped right away
                    let vu = ValidUntil::new_with_now(SecondsSinceServerStart::new_raw(sample), 1);
                    maps.announce(&observer_config, &stat_tx, &mut rng, &request, canonical_src(src_ip, 7000), vu)
                }));
                let resp = match resp {
                    Ok(r) => r,
                    Err(p) => {
                        let text = panic_text(&*p);
                        if sample == u32::MAX {
                            // artefact of the observer itself (1 second age at the end of time); not a finding
                            continue;
                        }
                        return Err(fail("panic", &format!("udp.swarm.announce.panic:{}", text), "observer announce panicked".into()));
                    }
                };
                let view = model.announce(hash, key, false, false, sample as u64 + 1, [0x0b; 20]);
                let reply = decode_announce(&resp).unwrap();
                let got: BTreeSet<PeerKey> = reply.peers.iter().copied().collect();
                if got != view.others || reply.peers.len() != view.others.len() {
                    let missing: Vec<_> = view.others.difference(&got).collect();
                    let extra: Vec<_> = got.difference(&view.others).collect();
                    return Err(fail(
                        "handout",
                        "udp.swarm.handout_set",
                        format!("peers the tracker can hand out differ from the reference: missing {:?}, unexpected {:?}", missing, extra),
                    ));
                }
                if reply.seeders as usize != view.seeders || reply.leechers as usize != view.leechers {
                    bail!(fail("counts", "udp.swarm.announce.counts", format!("observer saw {}/{} reference {}/{}", reply.seeders, reply.leechers, view.seeders, view.leechers)));
                }
                // and leave again
                let stop = announce_request(hash, [0x0b; 20], observer_port, 3, 1, 0, 0, i as i32);
                let vu = ValidUntil::new_with_now(SecondsSinceServerStart::new_raw(0), 1);
                let _ = maps.announce(&observer_config, &stat_tx, &mut rng, &stop, canonical_src(src_ip, 7000), vu);
                model.announce(hash, key, true, false, 0, [0x0b; 20]);
                // representation shadow: the observer may itself cause a switch
                let large = is_large.entry((fam, hash)).or_insert(false);
                let others = view.others.len();
                if !*large && others == CAP {
                    *large = true;
                }
                if *large && others <= CAP {
                    *large = false; // stop shrinks again
                }
                drain(&mut tally);
                shape.ev(31);
            }
            Op::SetList { list } => {
                access_list.store(Arc::new(make_list(h, list)));
                list_now = list.iter().map(|i| hash_of(h, *i % h.torrents.len())).collect();
                shape.ev(40);
                shape.cnt("list_reload");
            }
            Op::Clean { advance, export } => {
                clock = clock.saturating_add(*advance).min(u32::MAX - 1);
                let now = clock;
                let _ = std::fs::remove_file(&config.scrape_exports.path);
                let before_members: BTreeMap<(Fam, [u8; 20]), usize> = model.torrents.iter().map(|(k, v)| (*k, v.len())).collect();
                let result = catch_unwind(AssertUnwindSafe(|| {
                    maps.clean_and_update_statistics(&config, &statistics, &stat_tx, &access_list, SecondsSinceServerStart::new_raw(now), *export);
                }));
                if let Err(p) = result {
                    return Err(fail("panic", &format!("udp.swarm.clean.panic:{}", panic_text(&*p)), "clean panicked".into()));
                }
                // model: expiry first (the export is written at that point), then forbidden removal
                let mode = h.mode;
                let list_ref = list_now.clone();
                let removed = model.clean(now as u64, &|_| true);
                let after_expiry: BTreeMap<(Fam, [u8; 20]), (usize, usize)> = model
                    .torrents
                    .iter()
                    .map(|(k, v)| {
                        let s = v.values().filter(|e| e.seeder).count();
                        (*k, (s, v.len() - s))
                    })
                    .collect();
                let forbidden_peers_v4: usize = model.torrents.iter().filter(|((f, hh), _)| *f == Fam::V4 && !allowed(&list_ref, mode, hh)).map(|(_, v)| v.len()).sum();
                let forbidden_peers_v6: usize = model.torrents.iter().filter(|((f, hh), _)| *f == Fam::V6 && !allowed(&list_ref, mode, hh)).map(|(_, v)| v.len()).sum();
                let removed2 = model.clean(now as u64, &|hh| allowed(&list_ref, mode, hh));
                debug_assert!(removed2.is_empty());
                if !removed.is_empty() {
                    shape.ev(50);
                    shape.cnt("clean_expired_some");
                    shape.nontrivial = true;
                    if removed.iter().any(|r| r.3.seeder) {
                        shape.cnt("clean_expired_seeder");
                    }
                }
                for ((fam, hash), n_before) in before_members.iter() {
                    let n_after = model.size(*fam, hash);
                    let large = is_large.entry((*fam, *hash)).or_insert(false);
                    if *large && n_after <= CAP {
                        *large = false;
                        if n_after < *n_before {
                            shape.ev(51);
                            shape.cnt("large_to_small_by_clean");
                        }
                    }
                    if n_after == 0 && *n_before > 0 {
                        shape.cnt("torrent_emptied_by_clean");
                    }
                }
                shape.ev(52);
                // C20 totals
                let t4 = statistics.ipv4.torrents.load(Ordering::Relaxed);
                let t6 = statistics.ipv6.torrents.load(Ordering::Relaxed);
                let p4 = statistics.ipv4.peers.load(Ordering::Relaxed);
                let p6 = statistics.ipv6.peers.load(Ordering::Relaxed);
                let (mt4, mp4) = model.totals(Fam::V4);
                let (mt6, mp6) = model.totals(Fam::V6);
                if (t4, t6) != (mt4, mt6) {
                    bail!(fail("stats_torrents", "udp.stats.torrent_totals", format!("reported torrents v4/v6 {}/{} but stored {}/{}", t4, t6, mt4, mt6)));
                }
                if (p4, p6) != (mp4, mp6) {
                    let sig = if p4 == mp4 + forbidden_peers_v4 && p6 == mp6 + forbidden_peers_v6 && forbidden_peers_v4 + forbidden_peers_v6 > 0 {
                        "udp.stats.peer_total_counts_forbidden_torrents"
                    } else {
                        "udp.stats.peer_totals"
                    };
                    bail!(fail("stats_peers", sig, format!("reported peers v4/v6 {}/{} but stored {}/{} (peers of torrents dropped by the access list in this pass: {}/{})", p4, p6, mp4, mp6, forbidden_peers_v4, forbidden_peers_v6)));
                }
                // C20 per-client tallies (message stream folded with the statistics worker's rule)
                drain(&mut tally);
                let want: BTreeMap<[u8; 20], i64> = model.peer_id_tally().into_iter().map(|(k, v)| (k, v as i64)).collect();
                // forbidden torrents are dropped without PeerRemoved messages: attribute separately
                if tally != want {
                    let diff: Vec<String> = want
                        .keys()
                        .chain(tally.keys())
                        .collect::<BTreeSet<_>>()
                        .into_iter()
                        .filter(|k| want.get(*k) != tally.get(*k))
                        .map(|k| format!("{}: stored {} tallied {}", vcore::hex(&k[..4]), want.get(k).copied().unwrap_or(0), tally.get(k).copied().unwrap_or(0)))
                        .collect();
                    let sig = if forbidden_peers_v4 + forbidden_peers_v6 > 0 || shape.counters.get("forbidden_dropped_with_peers").is_some() {
                        "udp.stats.tally_after_access_list_drop"
                    } else if shape.counters.get("peer_id_changed_on_reannounce").is_some() || shape.counters.get("stop_with_other_id").is_some() {
                        "udp.stats.peer_id_change_tally_drift"
                    } else {
                        "udp.stats.client_tally"
                    };
                    bail!(fail("client_tally", sig, format!("per-peer-id tallies differ from stored peers: {}", diff.join("; "))));
                }
                if forbidden_peers_v4 + forbidden_peers_v6 > 0 {
                    shape.cnt("forbidden_dropped_with_peers");
                    shape.nontrivial = true;
                }
                // C20 export content
                if *export {
                    let text = match std::fs::read_to_string(&config.scrape_exports.path) {
                        Ok(t) => t,
                        Err(e) => return Err(fail("export", "udp.export.missing", format!("export requested but file unreadable: {}", e))),
                    };
                    let mut got: BTreeMap<(Fam, [u8; 20]), (usize, usize)> = BTreeMap::new();
                    for line in text.lines() {
                        let parts: Vec<&str> = line.split(' ').collect();
                        let ok = parts.len() == 4 && (parts[0] == "4" || parts[0] == "6") && parts[1].len() == 40;
                        if !ok {
                            bail!(fail("export", "udp.export.malformed_line", format!("malformed export line {:?}", line)));
                        }
                        let fam = if parts[0] == "4" { Fam::V4 } else { Fam::V6 };
                        let hh: [u8; 20] = vcore::unhex(parts[1]).try_into().unwrap();
                        let s: usize = parts[2].parse().unwrap_or(usize::MAX);
                        let l: usize = parts[3].parse().unwrap_or(usize::MAX);
                        if got.insert((fam, hh), (s, l)).is_some() {
                            bail!(fail("export", "udp.export.duplicate_line", format!("torrent listed twice: {:?}", line)));
                        }
                    }
                    // torrents forbidden by the list but still holding peers at export time: don't care
                    for (k, v) in after_expiry.iter() {
                        let forbidden = !allowed(&list_ref, mode, &k.1);
                        match got.get(k) {
                            Some(g) if g == v => {}
                            None if forbidden => {}
                            other => {
                                bail!(fail("export", "udp.export.content", format!("export entry for {:?} {} is {:?}, stored seeders/leechers {:?}", k.0, vcore::hex(&k.1), other, v)));
                            }
                        }
                    }
                    for k in got.keys() {
                        if !after_expiry.contains_key(k) {
                            bail!(fail("export", "udp.export.content", format!("export lists {:?} {} which has no stored peers", k.0, vcore::hex(&k.1))));
                        }
                    }
                    shape.cnt("export_checked");
                }
            }
        }
        ops_done += 1;
    }
    // final quiescent read-out: every torrent, both families
    for t in 0..h.torrents.len() {
        let hash = hash_of(h, t);
        for fam in [Fam::V4, Fam::V6] {
            let src_ip: IpAddr = if fam == Fam::V6 { "fd00::99".parse().unwrap() } else { "10.9.9.9".parse().unwrap() };
            let request = ScrapeRequest {
                connection_id: ConnectionId::new(0),
                transaction_id: TransactionId::new(0),
                info_hashes: vec![InfoHash(hash)],
            };
            let r = maps.scrape(request, canonical_src(src_ip, 1));
            let (s, l) = model.scrape(fam, &hash);
            let st = &r.torrent_stats[0];
            if st.seeders.0.get() as usize != s || st.leechers.0.get() as usize != l {
                return Err(Fail {
                    op_index: h.ops.len(),
                    clause: "counts",
                    signature: "udp.swarm.final.counts".into(),
                    detail: format!("final scrape of torrent {} {:?}: {}/{} reference {}/{}", t, fam, st.seeders.0.get(), st.leechers.0.get(), s, l),
                });
            }
        }
    }
    Ok(ops_done)
}

fn gen_history(rng: &mut SplitMix, focus: &str) -> History {
    let n_torrents = 1 + rng.usize(4);
    let mut torrents = Vec::new();
    let first = rng.next() as u8;
    for i in 0..n_torrents {
        let mut hsh = rng.arr20();
        // share / differ in shard (first byte % 16)
        hsh[0] = if rng.chance(1, 2) { first } else { first.wrapping_add((i * 16) as u8) };
        torrents.push(vcore::hex(&hsh));
    }
    let n_src = 1 + rng.usize(6);
    let mut sources = Vec::new();
    // the sources of one history differ in ONE octet / segment whose position varies from history to history
    // (a key comparison that looks at part of the address only must not go unnoticed)
    let (pos4, pos6) = (rng.usize(4), rng.usize(8));
    let v4_of = |i: u8| {
        let mut o = [10u8, 0, 0, 1];
        o[pos4] = if pos4 == 0 { 11 + i } else { 1 + i };
        Ipv4Addr::new(o[0], o[1], o[2], o[3])
    };
    let v6_of = |i: u16| {
        let mut g = [0xfd00u16, 0, 0, 0, 0, 0, 0, 1];
        g[pos6] = if pos6 == 0 { 0xfd00 + i } else { 1 + i };
        Ipv6Addr::new(g[0], g[1], g[2], g[3], g[4], g[5], g[6], g[7])
    };
    for i in 0..n_src {
        let kind = rng.below(10);
        let ip: IpAddr = if kind < 4 {
            IpAddr::V4(v4_of(i as u8))
        } else if kind < 7 {
            IpAddr::V6(v6_of(i as u16))
        } else {
            // IPv4-mapped: must collide with the plain IPv4 peer of the same number
            IpAddr::V6(v4_of(rng.below(n_src as u64) as u8).to_ipv6_mapped())
        };
        sources.push(ip.to_string());
    }
    let n_pid = 1 + rng.usize(4);
    // related peer ids, as real clients produce them: "-XX1234-" + random tail; a restarted client keeps the first
    // eight bytes, an upgraded one keeps nothing, and near-misses differ in a single byte at either end
    let base = {
        let mut b = rng.arr20();
        if rng.chance(2, 3) {
            b[..8].copy_from_slice(*rng.pick(&[b"-TR2940-", b"-qB4250-", b"-UT355S-", b"-lt0D80-"]));
        }
        b
    };
    let peer_ids = (0..n_pid)
        .map(|i| {
            let mut b = base;
            if i > 0 {
                match rng.below(6) {
                    0 => b = rng.arr20(),
                    1 => b[8..].copy_from_slice(&rng.arr20()[8..]),
                    2 => b[..8].copy_from_slice(&rng.arr20()[..8]),
                    3 => b[19] ^= 1,
                    4 => b[0] ^= 1,
                    _ => b[8] ^= 0x20,
                }
            }
            vcore::hex(&b)
        })
        .collect();
    let ages: &[u32] = if focus == "C10" {
        &[0, 1, 2, 3, 7, 1800, u32::MAX / 2, u32::MAX - 1, u32::MAX]
    } else {
        &[1, 2, 3, 5, 20, 100]
    };
    let max_peer_age = *rng.pick(ages);
    let start_clock = if focus == "C10" && rng.chance(1, 4) {
        *rng.pick(&[0u32, 1, 1000, u32::MAX - 10, u32::MAX / 2])
    } else {
        rng.below(50) as u32
    };
    let mode = if focus == "C11" { rng.below(3) as u8 } else if rng.chance(1, 8) { 1 + rng.below(2) as u8 } else { 0 };
    let initial_list: Vec<usize> = (0..n_torrents).filter(|_| rng.chance(1, 2)).collect();
    let max_response_peers = *rng.pick(&[0usize, 1, 2, 3, 5, 30, 100]);
    let n_ops = 5 + rng.usize(56);
    let ports: Vec<u16> = (0..(1 + rng.usize(4))).map(|i| 1000 + i as u16).collect();
    let lefts = [0i64, 0, 0, 1, 1, 5, i64::MAX, -1, i64::MIN];
    let numwants = [i32::MIN, -1, 0, 0, 1, 2, 3, 50, i32::MAX];
    // size steering: target swarm size oscillates so that both switches happen repeatedly
    let mut target_big = rng.chance(1, 2);
    let mut ops = Vec::new();
    let excursion = rng.chance(1, 20);
    for k in 0..n_ops {
        if k % 7 == 6 {
            target_big = !target_big;
        }
        let r = rng.below(100);
        if r < 62 {
            let stop_bias = if target_big { 8 } else { 45 };
            let event = if rng.below(100) < stop_bias { 3 } else { rng.below(3) as u8 };
            let port = if excursion && rng.chance(1, 2) { 2000 + rng.below(40) as u16 } else { *rng.pick(&ports) };
            ops.push(Op::Announce {
                t: rng.usize(n_torrents),
                src: rng.usize(n_src),
                port,
                event,
                left: *rng.pick(&lefts),
                numwant: *rng.pick(&numwants),
                pid: if rng.chance(3, 4) { 0 } else { rng.usize(n_pid) },
                ip_field: if rng.chance(1, 2) { 0 } else { rng.next() as u32 },
                lag: if rng.chance(3, 4) { 0 } else { rng.below(3) as u32 },
            });
        } else if r < 72 {
            let n = 1 + rng.usize(5);
            ops.push(Op::Scrape {
                v6: rng.chance(1, 2),
                ts: (0..n).map(|_| rng.usize(n_torrents + 2)).collect(),
            });
        } else if r < 84 {
            let advance = match rng.below(6) {
                0 => 0,
                1 => 1,
                2 => max_peer_age.saturating_sub(1),
                3 => max_peer_age,
                4 => max_peer_age.saturating_add(1),
                _ => rng.below(max_peer_age.min(200) as u64 + 2) as u32,
            };
            ops.push(Op::Clean {
                advance: if max_peer_age > 100_000 && rng.chance(1, 2) { rng.below(5) as u32 } else { advance },
                export: rng.chance(1, 2),
            });
        } else if r < 96 || mode == 0 {
            ops.push(Op::Observe {
                t: rng.usize(n_torrents + 1),
                v6: rng.chance(1, 2),
            });
        } else {
            ops.push(Op::SetList {
                list: (0..n_torrents).filter(|_| rng.chance(1, 2)).collect(),
            });
        }
    }
    History {
        max_response_peers,
        max_peer_age,
        start_clock,
        mode,
        initial_list,
        histograms: rng.chance(1, 4),
        torrents,
        sources,
        peer_ids,
        rng_seed: rng.next(),
        ops,
    }
}


/// C10 boundary sweep: deterministic grid over representation (inline 1..2, heap 3..12), seeder/leecher,
/// position of the watched peer, max age, announce time, optional re-announce at an offset, then cleaning
/// passes exactly one second before, at, and after the deadline (presence read back by scrape + observer).
fn gen_sweep(index: u64) -> Option<History> {
    let ages: [u32; 8] = [0, 1, 2, 3, 1800, u32::MAX / 2, u32::MAX - 1, u32::MAX];
    let t0s: [u32; 4] = [0, 1, 1000, u32::MAX - 3];
    let sizes: [usize; 8] = [1, 2, 3, 4, 5, 6, 9, 12];
    let positions = 3usize; // first, middle, last
    let re_opts = 5usize; // none, +0, +1, age-1, age
    let mut i = index;
    let age = ages[(i % 8) as usize];
    i /= 8;
    let t0 = t0s[(i % 4) as usize];
    i /= 4;
    let size = sizes[(i % 8) as usize];
    i /= 8;
    let pos = (i % positions as u64) as usize;
    i /= positions as u64;
    let seeder = i % 2 == 0;
    i /= 2;
    let re = (i % re_opts as u64) as usize;
    i /= re_opts as u64;
    let v6 = i % 2 == 1;
    i /= 2;
    if i > 0 {
        return None;
    }
    // keep all instants below u32::MAX (the engines' clock convention)
    let target = match pos {
        0 => 0,
        1 => size / 2,
        _ => size - 1,
    };
    let sources: Vec<String> = (0..size).map(|m| if v6 { format!("fd00::{:x}", m + 1) } else { format!("10.0.0.{}", m + 1) }).collect();
    let mut ops = Vec::new();
    for m in 0..size {
        ops.push(Op::Announce { t: 0, src: m, port: 1000 + m as u16, event: 2, left: if (m == target) == seeder { 0 } else { 1 }, numwant: 50, pid: 0, ip_field: 0, lag: 0 });
    }
    let mut issue = t0 as u64;
    let mut clock = t0 as u64;
    let re_off: Option<u64> = match re {
        0 => None,
        1 => Some(0),
        2 => Some(1),
        3 => Some((age as u64).saturating_sub(1)),
        _ => Some(age as u64),
    };
    if let Some(off) = re_off {
        if clock + off < u32::MAX as u64 - 2 {
            ops.push(Op::Clean { advance: off as u32, export: false });
            clock += off;
            // the re-announce sets a fresh deadline (if the entry expired at this very pass it simply comes back)
            ops.push(Op::Announce { t: 0, src: target, port: 1000 + target as u16, event: 0, left: if seeder { 0 } else { 1 }, numwant: 50, pid: 0, ip_field: 0, lag: 0 });
            issue = clock;
        }
    }
    let deadline = issue + age as u64;
    // cleans at deadline-1, deadline, deadline+1 where those instants exist on the clock
    let mut last = clock;
    for instant in [deadline.saturating_sub(1), deadline, deadline + 1] {
        if instant < last || instant > u32::MAX as u64 - 1 {
            continue;
        }
        ops.push(Op::Clean { advance: (instant - last) as u32, export: false });
        last = instant;
        ops.push(Op::Observe { t: 0, v6 });
        ops.push(Op::Scrape { v6, ts: vec![0] });
    }
    Some(History {
        max_response_peers: 30,
        max_peer_age: age,
        start_clock: t0,
        mode: 0,
        initial_list: vec![],
        histograms: false,
        torrents: vec![vcore::hex(&[0x77u8; 20])],
        sources,
        peer_ids: vec![vcore::hex(&[1u8; 20])],
        rng_seed: index,
        ops,
    })
}

fn relevant(property: &str, clause: &str) -> bool {
    if clause == "panic" {
        return true;
    }
    match property {
        "C01" => matches!(clause, "counts" | "handout" | "family" | "reply_kind" | "scrape" | "panic" | "peerlist" | "stats_torrents"),
        "C02" => matches!(clause, "peerlist"),
        "C03" => matches!(clause, "family" | "handout"),
        "C10" => matches!(clause, "counts" | "handout" | "panic" | "stats_torrents"),
        "C11" => matches!(clause, "counts" | "handout" | "stats_torrents"),
        "C12" => matches!(clause, "panic"),
        "C20" => matches!(clause, "stats_torrents" | "stats_peers" | "client_tally" | "export"),
        _ => true,
    }
}

fn main() {
    let args = Args::parse();
    let property = args.property();
    let _ = FOCUS.set(property.clone());
    silence_panics();
    let export_dir = args.str("tmpdir", "/verif/evidence/tmp");
    let export_dir = format!("{}/udp_swarm_{}", export_dir, std::process::id());
    std::fs::create_dir_all(&export_dir).unwrap();
    let mut report = Report::new(
        "udp_swarm",
        "random histories of announce/scrape/clean/observe/list-reload on the real udp TorrentMaps, compared with the reference model after every op; \
         non-trivial = history crosses an inline<->heap switch, removes/demotes a seeder, expires an entry or drops a forbidden torrent; distinct = hash of the abstracted event sequence",
    );

    if let Some(path) = args.get("replay") {
        let v: serde_json::Value = serde_json::from_str(&std::fs::read_to_string(path).unwrap()).unwrap();
        let h: History = serde_json::from_value(v["history"].clone()).unwrap();
        let mut shape = Shape::default();
        report.eval();
        match run_history(&h, &export_dir, &mut shape) {
            Ok(_) => println!("replay: history ran clean ({} ops)", h.ops.len()),
            Err(f) => {
                println!("replay: op {} clause {} signature {}: {}", f.op_index, f.clause, f.signature, f.detail);
                report.violation(&f.signature, f.clause, f.detail, json!({"engine":"udp_swarm","history": h, "failing_op": f.op_index}));
            }
        }
        let _ = std::fs::remove_dir_all(&export_dir);
        report.finish(&args.out());
    }

    if args.get("mode") == Some("sweep") {
        let mut idx = 0u64;
        let mut ops = 0u64;
        while let Some(h) = gen_sweep(idx) {
            let mut shape = Shape::default();
            match run_history(&h, &export_dir, &mut shape) {
                Ok(n) => ops += n,
                Err(f) => {
                    if relevant(&property, f.clause) {
                        let mut hh = h.clone();
                        hh.ops.truncate(f.op_index + 1);
                        report.violation(&f.signature, f.clause, format!("boundary sweep case {}: {}", idx, f.detail), json!({"engine":"udp_swarm","history": hh, "failing_op": f.op_index, "sweep_index": idx}));
                    }
                }
            }
            if shape.counters.contains_key("clean_expired_some") {
                report.nontrivial(vcore::fnv(&idx.to_le_bytes()));
            }
            if idx == 4321 {
                report.sample(serde_json::to_value(&h).unwrap());
            }
            idx += 1;
        }
        report.evals(ops);
        report.add("sweep_cases", idx);
        report.extra.insert("exhaustive".into(), json!(true));
        report.rule = "deterministic boundary grid: 8 max ages x 4 announce times x 8 swarm sizes (inline and heap) x 3 positions x seeder/leecher x 5 re-announce offsets x 2 families, cleans at deadline-1 / deadline / deadline+1 with scrape + observer read-out vs reference model; non-trivial = case in which the watched pass expired something; distinct = grid index".into();
        let _ = std::fs::remove_dir_all(&export_dir);
        report.finish(&args.out());
    }
    let seed = args.seed();
    let shard = args.u64("shard", 0);
    let histories = args.u64("histories", if args.thorough() { 400_000 } else { 20_000 });
    let budget_s = args.u64("budget_s", if args.thorough() { 110 } else { 25 });
    let mut rng = SplitMix::new(seed).fork(0x0C01 + shard * 7919);
    let mut other_property = 0u64;
    let mut totals: BTreeMap<&'static str, u64> = BTreeMap::new();
    let mut n_hist = 0u64;
    for _ in 0..histories {
        if report.started.elapsed().as_secs() >= budget_s {
            break;
        }
        let h = gen_history(&mut rng, &property);
        let mut shape = Shape::default();
        let res = run_history(&h, &export_dir, &mut shape);
        n_hist += 1;
        match res {
            Ok(n) => report.evals(n),
            Err(f) => {
                report.evals(f.op_index as u64);
                if relevant(&property, f.clause) {
                    // shrink: drop trailing ops after the failing one
                    let mut hh = h.clone();
                    hh.ops.truncate(f.op_index + 1);
                    report.violation(&f.signature, f.clause, f.detail, json!({"engine":"udp_swarm","seed":seed,"shard":shard,"history": hh, "failing_op": f.op_index}));
                } else {
                    other_property += 1;
                }
            }
        }
        if shape.nontrivial {
            report.nontrivial(vcore::fnv(&shape.seq));
        }
        for (k, v) in shape.counters {
            *totals.entry(k).or_insert(0) += v;
        }
        if report.samples.len() < 2 && h.ops.len() < 12 {
            report.sample(serde_json::to_value(&h).unwrap());
        }
    }
    report.add("histories", n_hist);
    report.add("anomalies_of_other_properties_not_reported_here", other_property);
    for (k, v) in totals {
        report.add(k, v);
    }
    if report.distinct.len() < 2 && report.violations.is_empty() {
        report.inconclusive("fewer than 2 distinct non-trivial histories observed");
    }
    let _ = std::fs::remove_dir_all(&export_dir);
    report.finish(&args.out());
}
