//! live engine, UDP: the real tracker (`aquatic_udp::run`) in-process, the
//! harness as loopback clients, offline checkers over the recorded datagram logs.
//!
//! scenarios:  contract (C06)  address (C03)  window (C05)  expiry (C10)
//!             access (C11)    buffers (C18)
//! One tracker per process (run() never returns); --backend mio|uring, --workers N.

use std::collections::{BTreeMap, BTreeSet};
use std::net::{IpAddr, Ipv4Addr, Ipv6Addr, SocketAddr};
use std::sync::{Arc, Mutex};
use std::time::Duration;

use serde_json::json;

use vcore::net::RawUdp4;
use vcore::refudp::*;
use vcore::{Args, Report, SplitMix};
use vudp::live::*;
use vudp::wire::*;

fn hash_n(tag: u8, n: usize) -> [u8; 20] {
    let mut h = [tag; 20];
    h[0] = (n * 29) as u8;
    h[1] = n as u8;
    h[2] = (n >> 8) as u8;
    h
}

// ------------------------------------------------------------------------------------------------
// contract (C06)
// ------------------------------------------------------------------------------------------------

#[derive(Clone, Debug)]
enum Expect {
    /// exactly one connect reply (16 bytes)
    Connect,
    /// exactly one announce reply of this family
    Announce { v4: bool },
    /// exactly one scrape reply with these (seeders, leechers) in order
    Scrape { stats: Vec<(i32, i32)> },
    /// malformed but carries a valid id: at most one reply and only an error
    ErrorAllowed,
    /// nothing may come back
    Nothing,
}

#[derive(Clone, Debug)]
struct Sent {
    client: usize,
    tid: Option<i32>,
    bytes: Vec<u8>,
    expect: Expect,
    class: &'static str,
}

struct Ids {
    /// valid ids per client (issued in the current epoch)
    valid: Vec<Vec<i64>>,
    stale: Vec<Vec<i64>>,
    foreign_tracker: Vec<i64>,
}

fn scenario_contract(args: &Args, report: &mut Report) {
    let uring = args.get("backend") == Some("uring");
    let workers = args.usize("workers", 2);
    let max_scrape = args.u64("max_scrape", 70) as u8;
    let n_per_client = args.usize("datagrams", 2500);
    let mut meta = SplitMix::new(args.seed()).fork(0xC06 + workers as u64 + if uring { 100 } else { 0 });
    aquatic_common::verif::set_clock(Some(0));
    let mut config = base_config(&Opts { workers, uring, only_v6: false, ..Default::default() });
    config.protocol.max_scrape_torrents = max_scrape;
    config.protocol.max_response_peers = 30;
    config.cleaning.max_connection_age = 100;
    config.cleaning.max_peer_age = 1_000_000;
    let tracker = match start(config.clone()) {
        Ok(t) => t,
        Err(e) => {
            report.inconclusive(format!("tracker start: {}", e));
            return;
        }
    };
    // a second tracker instance ("previous run"): ids issued by it must not work here
    let mut other_cfg = base_config(&Opts { workers: 1, uring: false, ..Default::default() });
    other_cfg.cleaning.max_connection_age = 100;
    let other = start(other_cfg).ok();

    // clients: six on 127.0.0.2..7 -> v4 socket, one on ::1 -> v6 socket, one v4 host through the dual-stack v6 socket
    let mut clients: Vec<Client> = Vec::new();
    for i in 0..6u8 {
        clients.push(Client::new(IpAddr::V4(Ipv4Addr::new(127, 0, 0, 2 + i)), tracker.v4).unwrap());
    }
    clients.push(Client::new(IpAddr::V6(Ipv6Addr::LOCALHOST), tracker.v6).unwrap());
    let dual = SocketAddr::new(IpAddr::V4(Ipv4Addr::LOCALHOST), tracker.v6.port());
    clients.push(Client::new(IpAddr::V4(Ipv4Addr::new(127, 0, 0, 9)), dual).unwrap());
    let nc = clients.len();

    // phase A: ids, then stale ids (clock + refresh), then fresh ids again
    let mut ids = Ids { valid: vec![vec![]; nc], stale: vec![vec![]; nc], foreign_tracker: vec![] };
    for (i, c) in clients.iter_mut().enumerate() {
        match c.connect(-(i as i32) - 1) {
            Some(id) => ids.stale[i].push(id),
            None => {
                report.inconclusive(format!("client {} got no connect reply during set-up", i));
                return;
            }
        }
    }
    aquatic_common::verif::set_clock(Some(100)); // == max_connection_age: ids issued at 0 are now expired
    if !wait_time_refreshed(workers, uring) {
        report.inconclusive("socket workers did not refresh their time sample (udp.time_refreshed)");
        return;
    }
    for (i, c) in clients.iter_mut().enumerate() {
        for k in 0..2 {
            match c.connect(-(100 + i as i32 * 4 + k)) {
                Some(id) => ids.valid[i].push(id),
                None => {
                    report.inconclusive(format!("client {} got no connect reply during set-up", i));
                    return;
                }
            }
        }
    }
    if let Some(o) = &other {
        let mut c = Client::new(IpAddr::V4(Ipv4Addr::new(127, 0, 0, 2)), o.v4).unwrap();
        if let Some(id) = c.connect(-999) {
            ids.foreign_tracker.push(id);
        }
    }
    // scrape targets with known, distinct counts: torrent n gets n%4 seeders and n%3+1 leechers (v4), from client 0
    let n_targets = 80usize;
    let mut known_v4: BTreeMap<[u8; 20], (i32, i32)> = BTreeMap::new();
    {
        let id = ids.valid[0][0];
        let mut tid = -10_000;
        let mut port = 20_000u16;
        for n in 0..n_targets {
            let (s, l) = ((n % 4) as i32, (n % 3 + 1) as i32);
            for k in 0..(s + l) {
                tid -= 1;
                port += 1;
                let b = announce_bytes(id, tid, hash_n(0x51, n), port, 2, if k < s { 0 } else { 1 }, 0, [0; 4]);
                clients[0].send(&b).unwrap();
                if clients[0].recv_some(1, Duration::from_millis(500)).is_empty() {
                    report.inconclusive("set-up announce not answered");
                    return;
                }
            }
            known_v4.insert(hash_n(0x51, n), (s, l));
        }
    }
    let seen_base = counter("udp.datagram_seen");
    let sent_base: u64 = clients.iter().map(|c| c.sent).sum();

    // phase B: workload
    let mut tid_counter: i32 = 1;
    let mut plans: Vec<Vec<Sent>> = Vec::new();
    for ci in 0..nc {
        let mut r = meta.fork(ci as u64 + 1);
        let mut plan = Vec::new();
        let v4_source = clients[ci].is_v4_source();
        for _ in 0..n_per_client {
            tid_counter += 1;
            let tid = tid_counter;
            // which connection id
            let (cid, cid_valid, cid_class): (i64, bool, &'static str) = match r.below(10) {
                0 => (ids.stale[ci][0], false, "stale_id"),
                1 => (ids.valid[(ci + 1) % nc][0], false, "id_of_other_address"),
                2 => (r.next() as i64, false, "forged_id"),
                3 => (ids.foreign_tracker.first().copied().unwrap_or(7), false, "id_of_other_tracker"),
                4 => (ids.valid[ci][0] ^ (1 << r.below(64)), false, "bitflipped_id"),
                _ => (*r.pick(&ids.valid[ci]), true, "valid_id"),
            };
            let kind = r.below(100);
            let mut bytes: Vec<u8>;
            let mut class: &'static str;
            if kind < 12 {
                bytes = encode_request(&RefRequest::Connect { transaction_id: tid });
                if r.chance(1, 4) {
                    let extra = r.usize(40);
                    bytes.extend(r.vec(extra)); // longer than 16 bytes: still a connect
                }
                class = "connect";
            } else if kind < 50 {
                // announces go to torrents that are never scraped
                bytes = announce_bytes(cid, tid, hash_n(0x52, r.usize(6)), 1 + r.below(65535) as u16, r.below(4) as i32, *r.pick(&[0i64, 1, -1, i64::MAX]), *r.pick(&[-1i32, 0, 1, 50, i32::MAX]), (r.next() as u32).to_be_bytes());
                if r.chance(1, 3) {
                    let extra = r.usize(64);
                    bytes.extend(r.vec(extra));
                }
                class = "announce";
            } else if kind < 75 {
                let n = 1 + r.usize(100);
                let hashes: Vec<[u8; 20]> = (0..n).map(|_| if r.chance(1, 6) { hash_n(0x53, r.usize(50)) } else { hash_n(0x51, r.usize(n_targets)) }).collect();
                bytes = scrape_bytes(cid, tid, &hashes);
                class = "scrape";
            } else if kind < 80 {
                bytes = announce_bytes(cid, tid, hash_n(0x52, 1), 0, 0, 1, 0, [0; 4]);
                class = "announce_port_zero";
            } else if kind < 84 {
                bytes = scrape_bytes(cid, tid, &[]);
                class = "scrape_empty";
            } else if kind < 88 {
                bytes = scrape_bytes(cid, tid, &[hash_n(0x51, 1), hash_n(0x51, 2)]);
                bytes.truncate(bytes.len() - 1 - r.usize(19));
                class = "scrape_ragged";
            } else if kind < 93 {
                // truncation of a valid announce / scrape
                bytes = if r.chance(1, 2) { announce_bytes(cid, tid, hash_n(0x52, 2), 7, 0, 1, 0, [0; 4]) } else { scrape_bytes(cid, tid, &[hash_n(0x51, 3)]) };
                let n = r.usize(bytes.len());
                bytes.truncate(n);
                class = "truncated";
            } else if kind < 97 {
                // bit flip in a header field other than the transaction id
                bytes = announce_bytes(cid, tid, hash_n(0x52, 3), 9, 0, 1, 0, [0; 4]);
                let pos = *r.pick(&[0usize, 3, 7, 8, 9, 10, 11, 80, 81, 82, 83]);
                bytes[pos] ^= 1 << r.below(8);
                class = "bitflip_header";
            } else {
                let n = r.usize(200);
                bytes = r.vec(n);
                class = "random";
            }
            // expectation from the reference decoder + the table of issued ids
            let my_valid = |id: i64| ids.valid[ci].contains(&id);
            let expect = match decode_request(&bytes, max_scrape as usize) {
                Ok(RefRequest::Connect { .. }) => Expect::Connect,
                Ok(RefRequest::Announce(a)) => {
                    if my_valid(a.connection_id) {
                        Expect::Announce { v4: v4_source }
                    } else {
                        Expect::Nothing
                    }
                }
                Ok(RefRequest::Scrape { connection_id, hashes, .. }) => {
                    if my_valid(connection_id) {
                        Expect::Scrape { stats: hashes.iter().map(|h| if v4_source { known_v4.get(h).copied().unwrap_or((0, 0)) } else { (0, 0) }).collect() }
                    } else {
                        Expect::Nothing
                    }
                }
                Err(RefReject::PortZero { connection_id, .. }) | Err(RefReject::EmptyHashList { connection_id, .. }) | Err(RefReject::RaggedHashList { connection_id, .. }) => {
                    if my_valid(connection_id) {
                        Expect::ErrorAllowed
                    } else {
                        Expect::Nothing
                    }
                }
                Err(_) => {
                    // other malformed input: an error reply is tolerated only if the bytes carry a valid id at the BEP 15 offset
                    if bytes.len() >= 16 && my_valid(i64::from_be_bytes(bytes[0..8].try_into().unwrap())) {
                        Expect::ErrorAllowed
                    } else {
                        Expect::Nothing
                    }
                }
            };
            let tid_in_bytes = if bytes.len() >= 16 { Some(i32::from_be_bytes(bytes[12..16].try_into().unwrap())) } else { None };
            if class == "connect" || class == "announce" || class == "scrape" {
                if !cid_valid && class != "connect" {
                    class = cid_class;
                }
            }
            plan.push(Sent { client: ci, tid: tid_in_bytes, bytes, expect, class });
        }
        plans.push(plan);
    }
    // run the clients concurrently, windowed
    let logs: Arc<Mutex<Vec<(usize, Vec<u8>, SocketAddr)>>> = Arc::new(Mutex::new(Vec::new()));
    let clients: Vec<Mutex<Client>> = clients.into_iter().map(Mutex::new).collect();
    std::thread::scope(|s| {
        for (ci, plan) in plans.iter().enumerate() {
            let logs = logs.clone();
            let clients = &clients;
            s.spawn(move || {
                let mut c = clients[ci].lock().unwrap();
                for chunk in plan.chunks(24) {
                    let mut expected_replies = 0;
                    for item in chunk {
                        c.send(&item.bytes).unwrap();
                        if !matches!(item.expect, Expect::Nothing | Expect::ErrorAllowed) {
                            expected_replies += 1;
                        }
                    }
                    let got = c.recv_some(expected_replies, Duration::from_millis(300));
                    let mut l = logs.lock().unwrap();
                    for (b, from) in got {
                        l.push((ci, b, from));
                    }
                }
            });
        }
    });
    // port 0: a valid id of 127.0.0.2 used from source port 0 must be ignored (observable: no state created)
    let port0_hash = hash_n(0x54, 1);
    let raw = RawUdp4::new(Ipv4Addr::new(127, 0, 0, 2));
    let mut port0_sent = 0u64;
    if let Ok(raw) = &raw {
        for k in 0..20 {
            let b = announce_bytes(ids.valid[0][0], 900_000 + k, port0_hash, 4000 + k as u16, 2, 1, 0, [0; 4]);
            if raw.send(0, (Ipv4Addr::LOCALHOST, tracker.v4.port()), &b).is_ok() {
                port0_sent += 1;
            }
        }
        // control: the same datagram from a non-zero source port does create state (proves the raw path works)
        let b = announce_bytes(ids.valid[0][0], 900_100, hash_n(0x54, 2), 4100, 2, 1, 0, [0; 4]);
        let _ = raw.send(40_000, (Ipv4Addr::LOCALHOST, tracker.v4.port()), &b);
        port0_sent += 1;
    }
    // phase C: quiescence = the tracker has seen every datagram we sent
    let sent_total: u64 = clients.iter().map(|c| c.lock().unwrap().sent).sum::<u64>() - sent_base + port0_sent;
    let quiescent = vcore::net::wait_until(10_000, || counter("udp.datagram_seen") - seen_base >= sent_total);
    let seen = counter("udp.datagram_seen") - seen_base;
    let quiescent = quiescent && wait_socket_loops(2, 30_000);
    for (ci, c) in clients.iter().enumerate() {
        let c = c.lock().unwrap();
        let mut l = logs.lock().unwrap();
        for (b, from) in c.drain(Duration::from_millis(150)) {
            l.push((ci, b, from));
        }
    }
    report.add("datagrams_sent", sent_total);
    report.add("datagrams_seen_by_tracker", seen);
    if !quiescent {
        report.inconclusive(format!("tracker saw {} of {} datagrams (loopback drop?): 'never answered' cannot be decided", seen, sent_total));
    }
    // port-0 observation
    {
        let mut c = clients[0].lock().unwrap();
        let b = scrape_bytes(ids.valid[0][0], 910_000, &[port0_hash, hash_n(0x54, 2)]);
        // (decided by the tracker's progress, not by the clock: see `ask`)
        match ask(&mut c, &b, 1000) {
            Some(RefResponse::Scrape { stats, .. }) if stats.len() == 2 => {
                report.eval();
                if stats[0] != (0, 0, 0) {
                    report.violation("udp.live.port_zero_not_ignored", "contract", format!("announces from source port 0 created state: scrape shows {:?}", stats[0]), json!({"engine":"udp_live","scenario":"contract","backend": if uring {"uring"} else {"mio"}}));
                }
                if raw.is_ok() {
                    if stats[1] == (0, 0, 0) {
                        report.inconclusive("raw-socket control datagram (non-zero source port) had no effect: raw path not working");
                    } else {
                        report.nontrivial(vcore::fnv(b"port0"));
                        report.count("port_zero_datagrams_ignored_control_ok");
                    }
                }
            }
            _ => report.inconclusive("no scrape reply for the port-0 observation"),
        }
    }

    // phase D: offline check of the log
    let log = logs.lock().unwrap().clone();
    let mut by_tid: BTreeMap<(usize, i32), Vec<(Vec<u8>, SocketAddr)>> = BTreeMap::new();
    for (ci, b, from) in log.iter() {
        if b.len() >= 8 {
            let tid = i32::from_be_bytes(b[4..8].try_into().unwrap());
            by_tid.entry((*ci, tid)).or_default().push((b.clone(), *from));
        } else {
            report.violation("udp.live.runt_reply", "contract", format!("client {} received a {}-byte datagram", ci, b.len()), json!({"engine":"udp_live","bytes":vcore::hex(b)}));
        }
    }
    let backend = if uring { "uring" } else { "mio" };
    let mut matched: BTreeSet<(usize, i32)> = BTreeSet::new();
    for plan in plans.iter() {
        for item in plan {
            report.eval();
            let replies: Vec<(Vec<u8>, SocketAddr)> = item.tid.and_then(|t| by_tid.get(&(item.client, t)).cloned()).unwrap_or_default();
            if let Some(t) = item.tid {
                matched.insert((item.client, t));
            }
            let replay = json!({"engine":"udp_live","scenario":"contract","backend":backend,"workers":workers,"client":item.client,"class":item.class,"request":vcore::hex(&item.bytes),"replies":replies.iter().map(|r| vcore::hex(&r.0)).collect::<Vec<_>>()});
            let v4reply = clients[item.client].lock().unwrap().is_v4_source();
            if replies.len() > 1 {
                report.violation("udp.live.more_than_one_reply", "contract", format!("{} replies to one {} datagram", replies.len(), item.class), replay.clone());
                continue;
            }
            let want_from = clients[item.client].lock().unwrap().tracker;
            if let Some((_, from)) = replies.first() {
                if from.port() != want_from.port() {
                    // Observation only: the statement constrains where a reply is addressed to, not which of the
                    // tracker's sockets sends it (io_uring answers IPv4 hosts that came in through the dual-stack
                    // IPv6 socket from the IPv4 socket).
                    report.count("observation.reply_sent_from_the_tracker's_other_socket");
                }
            }
            let decoded = replies.first().map(|(b, _)| decode_response(b, v4reply));
            match (&item.expect, decoded) {
                (Expect::Nothing, None) => {}
                (Expect::Nothing, Some(r)) => {
                    let sig = match r {
                        Some(RefResponse::Error { .. }) => "udp.live.error_reply_without_valid_id",
                        Some(RefResponse::Connect { .. }) => "udp.live.unexpected_connect_reply",
                        _ => "udp.live.reply_without_valid_id",
                    };
                    report.violation(sig, "contract", format!("{} datagram ({} bytes) without a connection id valid for its source was answered with {} bytes", item.class, item.bytes.len(), replies[0].0.len()), replay);
                }
                (Expect::ErrorAllowed, None) => {}
                (Expect::ErrorAllowed, Some(Some(RefResponse::Error { .. }))) => {}
                (Expect::ErrorAllowed, Some(other)) => report.violation("udp.live.malformed_request_answered", "contract", format!("malformed {} request answered with {:?}", item.class, other.map(|x| format!("{:?}", x).chars().take(60).collect::<String>())), replay),
                (Expect::Connect, Some(Some(RefResponse::Connect { .. }))) => {
                    if replies[0].0.len() > item.bytes.len() {
                        report.violation("udp.live.connect_reply_amplifies", "contract", "connect reply longer than the request".to_string(), replay);
                    }
                }
                (Expect::Announce { v4 }, Some(Some(RefResponse::AnnounceV4 { peers, .. }))) if *v4 => {
                    if peers.len() > 30 {
                        report.violation("udp.live.too_many_peers", "contract", format!("{} peers returned, max_response_peers 30", peers.len()), replay);
                    }
                }
                (Expect::Announce { v4 }, Some(Some(RefResponse::AnnounceV6 { .. }))) if !*v4 => {}
                (Expect::Scrape { stats }, Some(Some(RefResponse::Scrape { stats: got, .. }))) => {
                    let got2: Vec<(i32, i32)> = got.iter().map(|(s, _, l)| (*s, *l)).collect();
                    if got2 != *stats {
                        let sig = if got2.len() != stats.len() { "udp.live.scrape_not_first_n_requested" } else { "udp.live.scrape_entries_out_of_order" };
                        report.violation(sig, "contract", format!("scrape reply has {} entries {:?}.., expected the first {} requested in order {:?}..", got2.len(), &got2[..got2.len().min(4)], stats.len(), &stats[..stats.len().min(4)]), replay);
                    }
                }
                (exp, None) => {
                    if quiescent {
                        let sig = if uring && item.bytes.len() > 480 { "udp.uring.request_exceeds_recv_buffer" } else { "udp.live.valid_request_never_answered" };
                        report.violation(sig, "contract", format!("well-formed {} ({} bytes) with a valid connection id was received but never answered (expected {:?})", item.class, item.bytes.len(), format!("{:?}", exp).chars().take(40).collect::<String>()), replay);
                    }
                }
                (exp, Some(other)) => report.violation("udp.live.wrong_reply_kind", "contract", format!("{} expected {:?} got {:?}", item.class, format!("{:?}", exp).chars().take(40).collect::<String>(), other.map(|x| format!("{:?}", x).chars().take(60).collect::<String>())), replay),
            }
            let reply_class = match replies.first().map(|r| r.0[3]) {
                None => 9u8,
                Some(a) => a,
            };
            report.nontrivial(vcore::fnv(format!("{}/{}/{}/{}", item.class, reply_class, backend, workers).as_bytes()));
        }
    }
    // datagrams nobody asked for
    for ((ci, tid), v) in by_tid.iter() {
        if !matched.contains(&(*ci, *tid)) && *tid > 0 && *tid < 900_000 {
            report.violation("udp.live.reply_without_request", "contract", format!("client {} received {} datagram(s) with transaction id {} it never used", ci, v.len(), tid), json!({"engine":"udp_live","scenario":"contract","bytes":vcore::hex(&v[0].0)}));
        }
    }
    if report.samples.len() < 3 {
        for plan in plans.iter().take(1) {
            for item in plan.iter().take(3) {
                report.sample(json!({"client": item.client, "class": item.class, "request_hex": vcore::hex(&item.bytes[..item.bytes.len().min(60)]), "expected": format!("{:?}", item.expect).chars().take(60).collect::<String>()}));
            }
        }
    }
    report.add("clients", nc as u64);
    let exited = tracker.exit.lock().unwrap().clone();
    if let Some(e) = exited {
        report.violation("udp.live.tracker_exited", "crash", format!("run() returned during the workload: {}", e), json!({"engine":"udp_live","scenario":"contract"}));
    }
}


// ------------------------------------------------------------------------------------------------
// small helpers for the sequential scenarios
// ------------------------------------------------------------------------------------------------

struct Seq {
    tid: i32,
}

impl Seq {
    fn next(&mut self) -> i32 {
        self.tid += 1;
        self.tid
    }
}

/// one request, at most one reply (waits up to `ms`)
fn ask(c: &mut Client, bytes: &[u8], ms: u64) -> Option<RefResponse> {
    let tid = if bytes.len() >= 16 { i32::from_be_bytes(bytes[12..16].try_into().unwrap()) } else { 0 };
    let seen0 = counter("udp.datagram_seen");
    c.send(bytes).ok()?;
    let v4 = c.is_v4_source();
    let t0 = std::time::Instant::now();
    while t0.elapsed() < Duration::from_millis(ms) {
        for (b, _) in c.recv_some(1, Duration::from_millis(ms.min(50))) {
            if b.len() >= 8 && i32::from_be_bytes(b[4..8].try_into().unwrap()) == tid {
                return decode_response(&b, v4);
            }
        }
    }
    // No reply within the expected time. "Never answered" is decided by the tracker's own progress, not by the
    // clock: the datagram must have been counted as seen and every socket worker must have completed two further
    // loop iterations; a reply that exists is in our socket buffer by then.
    let seen = vcore::net::wait_until(30_000, || counter("udp.datagram_seen") > seen0);
    if !seen || !wait_socket_loops(2, 30_000) {
        vudp::live::UNDECIDED.fetch_add(1, std::sync::atomic::Ordering::SeqCst);
        return None;
    }
    for (b, _) in c.drain(Duration::from_millis(30)) {
        if b.len() >= 8 && i32::from_be_bytes(b[4..8].try_into().unwrap()) == tid {
            ASK_LATE.fetch_add(1, std::sync::atomic::Ordering::SeqCst);
            return decode_response(&b, v4);
        }
    }
    None
}

static ASK_LATE: std::sync::atomic::AtomicU64 = std::sync::atomic::AtomicU64::new(0);

fn peers_of(r: &Option<RefResponse>) -> Option<(i32, i32, BTreeSet<(IpAddr, u16)>)> {
    match r {
        Some(RefResponse::AnnounceV4 { leechers, seeders, peers, .. }) => Some((*seeders, *leechers, peers.iter().map(|(ip, p)| (IpAddr::V4(Ipv4Addr::from(*ip)), *p)).collect())),
        Some(RefResponse::AnnounceV6 { leechers, seeders, peers, .. }) => Some((*seeders, *leechers, peers.iter().map(|(ip, p)| (IpAddr::V6(Ipv6Addr::from(*ip)), *p)).collect())),
        _ => None,
    }
}

fn scrape_one(c: &mut Client, id: i64, seq: &mut Seq, h: [u8; 20]) -> Option<(i32, i32)> {
    match ask(c, &scrape_bytes(id, seq.next(), &[h]), 1500) {
        Some(RefResponse::Scrape { stats, .. }) if stats.len() == 1 => Some((stats[0].0, stats[0].2)),
        _ => None,
    }
}

// ------------------------------------------------------------------------------------------------
// address (C03): stored addresses are the real source addresses
// ------------------------------------------------------------------------------------------------

fn scenario_address(args: &Args, report: &mut Report) {
    let uring = args.get("backend") == Some("uring");
    let backend = if uring { "uring" } else { "mio" };
    let mode = args.str("sockets", "dual"); // dual | v4only | v6only
    let workers = args.usize("workers", 1);
    let mut r = SplitMix::new(args.seed()).fork(0xC03);
    aquatic_common::verif::set_clock(Some(0));
    let opts = match mode.as_str() {
        "v4only" => Opts { workers, uring, use_v6: false, ..Default::default() },
        "v6only" => Opts { workers, uring, use_v4: false, only_v6: true, ..Default::default() },
        _ => Opts { workers, uring, only_v6: false, ..Default::default() },
    };
    let mut config = base_config(&opts);
    config.protocol.max_response_peers = 100;
    config.cleaning.max_peer_age = 1_000_000;
    config.cleaning.max_connection_age = 1_000_000;
    let tracker = match start(config) {
        Ok(t) => t,
        Err(e) => {
            report.inconclusive(format!("tracker start: {}", e));
            return;
        }
    };
    let mut seq = Seq { tid: 100 };
    let fail = |report: &mut Report, sig: &str, detail: String| {
        report.violation(sig, "address", detail, json!({"engine":"udp_live","scenario":"address","backend":backend,"sockets":mode}));
    };
    let dual_for_v4 = SocketAddr::new(IpAddr::V4(Ipv4Addr::LOCALHOST), tracker.v6.port());
    // extra IPv6 loopback addresses, if the sandbox lets us add them
    let mut v6_hosts: Vec<Ipv6Addr> = vec![Ipv6Addr::LOCALHOST];
    for n in 2..4u16 {
        let a = format!("fd00::{}", n);
        let _ = std::process::Command::new("ip").args(["addr", "add", &format!("{}/128", a), "dev", "lo", "nodad"]).output();
        let addr: Ipv6Addr = a.parse().unwrap();
        // usable iff we can bind to it
        if vcore::net::wait_until(800, || std::net::UdpSocket::bind(SocketAddr::new(IpAddr::V6(addr), 0)).is_ok()) {
            v6_hosts.push(addr);
        }
    }
    std::thread::sleep(Duration::from_millis(300)); // DAD / address becomes usable
    report.add("ipv6_source_addresses", v6_hosts.len() as u64);

    for round in 0..args.usize("rounds", 12) {
        let torrent = hash_n(0x61, round);
        let mut expected_v4: BTreeSet<(IpAddr, u16)> = BTreeSet::new();
        let mut expected_v6: BTreeSet<(IpAddr, u16)> = BTreeSet::new();
        // IPv4 hosts, through the plain socket and / or the dual-stack socket
        if mode != "v6only" || false {
            for h in 0..3u8 {
                let ip = IpAddr::V4(Ipv4Addr::new(127, 0, 1, 2 + h));
                let via_plain = mode == "v4only" || r.chance(1, 2) || mode == "dual" && h == 0;
                let via_dual = mode == "dual" && (!via_plain || r.chance(2, 3) || h == 0);
                let port_a = 1000 + r.below(60000) as u16;
                for (use_it, target) in [(via_plain, tracker.v4), (via_dual, dual_for_v4)] {
                    if !use_it {
                        continue;
                    }
                    let mut c = Client::new(ip, target).unwrap();
                    let id = match c.connect(seq.next()) {
                        Some(i) => i,
                        None => {
                            report.inconclusive("no connect reply");
                            return;
                        }
                    };
                    // in-request ip field set to something else: must be ignored
                    let ipf = *r.pick(&[[0u8; 4], [9, 9, 9, 9], [127, 0, 0, 1], [255, 255, 255, 255]]);
                    let resp = ask(&mut c, &announce_bytes(id, seq.next(), torrent, port_a, 2, 1, 50, ipf), 1500);
                    report.eval();
                    match &resp {
                        Some(RefResponse::AnnounceV4 { .. }) => {}
                        other => fail(report, "udp.live.v4_source_not_answered_as_v4", format!("IPv4 host {} (through {}) got {:?}", ip, target, other.as_ref().map(|x| format!("{:?}", x).chars().take(50).collect::<String>()))),
                    }
                    expected_v4.insert((ip, port_a));
                    report.nontrivial(vcore::fnv(format!("v4host/{}/{}/{}", target.port() == tracker.v4.port(), backend, mode).as_bytes()));
                }
            }
        }
        if mode != "v4only" {
            for (k, host) in v6_hosts.iter().enumerate() {
                let mut c = match Client::new(IpAddr::V6(*host), SocketAddr::new(IpAddr::V6(if *host == Ipv6Addr::LOCALHOST { Ipv6Addr::LOCALHOST } else { *host }), tracker.v6.port())) {
                    Ok(c) => c,
                    Err(_) => continue,
                };
                // a non-loopback local address reaches the wildcard socket at its own address
                let id = match c.connect(seq.next()) {
                    Some(i) => i,
                    None => {
                        if k == 0 {
                            report.inconclusive("no connect reply over ::1");
                            return;
                        }
                        continue;
                    }
                };
                let port_a = 2000 + r.below(50000) as u16;
                let resp = ask(&mut c, &announce_bytes(id, seq.next(), torrent, port_a, 2, 0, 50, [8, 8, 8, 8]), 1500);
                report.eval();
                match &resp {
                    Some(RefResponse::AnnounceV6 { .. }) => {}
                    other => fail(report, "udp.live.v6_source_not_answered_as_v6", format!("IPv6 host {} got {:?}", host, other.as_ref().map(|x| format!("{:?}", x).chars().take(50).collect::<String>()))),
                }
                expected_v6.insert((IpAddr::V6(*host), port_a));
                report.nontrivial(vcore::fnv(format!("v6host/{}/{}/{}", k, backend, mode).as_bytes()));
            }
        }
        // observers: what does a second client get told?
        let mut observers: Vec<(Client, &BTreeSet<(IpAddr, u16)>, &str)> = Vec::new();
        if mode != "v6only" {
            observers.push((Client::new(IpAddr::V4(Ipv4Addr::new(127, 0, 2, 1)), tracker.v4).unwrap(), &expected_v4, "v4 observer via plain socket"));
        }
        if mode == "dual" {
            observers.push((Client::new(IpAddr::V4(Ipv4Addr::new(127, 0, 2, 2)), dual_for_v4).unwrap(), &expected_v4, "v4 observer via dual-stack socket"));
        }
        if mode != "v4only" {
            observers.push((Client::new(IpAddr::V6(Ipv6Addr::LOCALHOST), tracker.v6).unwrap(), &expected_v6, "v6 observer"));
        }
        for (mut c, expected, what) in observers {
            let id = match c.connect(seq.next()) {
                Some(i) => i,
                None => {
                    report.inconclusive("observer got no connect reply");
                    return;
                }
            };
            // scrape first (does not change anything), then an observer announce with a large numwant
            let sc = scrape_one(&mut c, id, &mut seq, torrent);
            report.eval();
            if sc.map(|x| (x.0 + x.1) as usize) != Some(expected.len()) {
                fail(report, "udp.live.swarm_size_differs", format!("{}: scrape reports {:?}, expected {} peers {:?}", what, sc, expected.len(), expected));
            }
            let obs_port = 60_000 + r.below(5000) as u16;
            let resp = ask(&mut c, &announce_bytes(id, seq.next(), torrent, obs_port, 2, 1, 100, [0; 4]), 1500);
            report.eval();
            match peers_of(&resp) {
                Some((_, _, got)) => {
                    if got != *expected {
                        let sig = if got.iter().any(|(ip, _)| matches!(ip, IpAddr::V4(a) if a.octets() == [9, 9, 9, 9] || a.octets() == [8, 8, 8, 8] || a.octets() == [255, 255, 255, 255])) { "udp.live.in_request_ip_honoured" } else { "udp.live.handed_out_addresses_differ" };
                        fail(report, sig, format!("{}: peers handed out {:?}, real (source ip, announced port) pairs {:?}", what, got, expected));
                    }
                }
                None => fail(report, "udp.live.observer_not_answered", format!("{}: no announce reply", what)),
            }
            // observer leaves again
            let _ = ask(&mut c, &announce_bytes(id, seq.next(), torrent, obs_port, 3, 1, 0, [0; 4]), 1500);
        }
        if report.samples.len() < 2 {
            report.sample(json!({"torrent": vcore::hex(&torrent), "sockets": mode, "backend": backend, "expected_ipv4_peers": format!("{:?}", expected_v4), "expected_ipv6_peers": format!("{:?}", expected_v6)}));
        }
    }
}

// ------------------------------------------------------------------------------------------------
// window (C05 on the wire), expiry (C10 live wiring)
// ------------------------------------------------------------------------------------------------

fn scenario_window(args: &Args, report: &mut Report) {
    let uring = args.get("backend") == Some("uring");
    let backend = if uring { "uring" } else { "mio" };
    let workers = args.usize("workers", 2);
    aquatic_common::verif::set_clock(Some(0));
    let mut config = base_config(&Opts { workers, uring, ..Default::default() });
    let age = 50u32;
    config.cleaning.max_connection_age = age;
    config.cleaning.max_peer_age = 1_000_000;
    let tracker = match start(config) {
        Ok(t) => t,
        Err(e) => {
            report.inconclusive(format!("tracker start: {}", e));
            return;
        }
    };
    let mut seq = Seq { tid: 1 };
    let set = |t: u32| -> bool {
        aquatic_common::verif::set_clock(Some(t));
        wait_time_refreshed(workers, uring)
    };
    let fail = |report: &mut Report, sig: &str, detail: String| report.violation(sig, "validator", detail, json!({"engine":"udp_live","scenario":"window","backend":backend}));
    let t_issue = 1000u32;
    if !set(t_issue) {
        report.inconclusive("no time refresh observed");
        return;
    }
    let mut a = Client::new(IpAddr::V4(Ipv4Addr::new(127, 0, 3, 1)), tracker.v4).unwrap();
    let mut b = Client::new(IpAddr::V4(Ipv4Addr::new(127, 0, 3, 2)), tracker.v4).unwrap();
    // same ip, other source ports: a dozen of them, so that with several socket workers (SO_REUSEPORT hashes the
    // source port too) some certainly reach a worker other than the one that issued the id
    let mut others: Vec<Client> = (0..12).map(|_| Client::new(IpAddr::V4(Ipv4Addr::new(127, 0, 3, 1)), tracker.v4).unwrap()).collect();
    let id = match a.connect(seq.next()) {
        Some(i) => i,
        None => {
            report.inconclusive("no connect reply");
            return;
        }
    };
    let h = hash_n(0x62, 1);
    // (clock, expected to be accepted from its own ip)
    let plan: Vec<(u32, bool)> = vec![(t_issue, true), (t_issue + age - 1, true), (t_issue + age, false), (t_issue + age + 1, false), (t_issue - 60, true), (t_issue - 61, false), (t_issue + 1, true)];
    for (clock, want) in plan {
        if !set(clock) {
            report.inconclusive("no time refresh observed");
            return;
        }
        let mut targets: Vec<(&str, &mut Client, bool)> = vec![("issuing address", &mut a, want), ("other address", &mut b, false)];
        for c in others.iter_mut() {
            targets.push(("same ip, other source port", c, want));
        }
        for (who, c, expect) in targets {
            let got = ask(c, &announce_bytes(id, seq.next(), h, 1234, 0, 1, 0, [0; 4]), if expect { 1500 } else { 250 }).is_some();
            report.eval();
            if got != expect {
                let sig = if expect { "udp.live.valid_id_rejected" } else if who == "other address" { "udp.live.id_accepted_from_other_address" } else if clock < t_issue { "udp.live.future_id_accepted" } else { "udp.live.expired_id_accepted" };
                fail(report, sig, format!("id issued at t={} (max_connection_age {}) used at t={} from {}: answered={} expected={}", t_issue, age, clock, who, got, expect));
            }
            report.nontrivial(vcore::fnv(format!("{}/{}/{}", clock as i64 - t_issue as i64, who, backend).as_bytes()));
        }
    }
    report.sample(json!({"t_issue": t_issue, "max_connection_age": age, "clock_values_checked": [0, age - 1, age, age + 1, -60, -61, 1], "backend": backend}));
}

fn scenario_expiry(args: &Args, report: &mut Report) {
    let uring = args.get("backend") == Some("uring");
    let backend = if uring { "uring" } else { "mio" };
    let workers = args.usize("workers", 1);
    aquatic_common::verif::set_clock(Some(0));
    let mut config = base_config(&Opts { workers, uring, ..Default::default() });
    let age = 30u32;
    config.cleaning.max_peer_age = age;
    config.cleaning.max_connection_age = 1_000_000;
    let tracker = match start(config) {
        Ok(t) => t,
        Err(e) => {
            report.inconclusive(format!("tracker start: {}", e));
            return;
        }
    };
    let mut seq = Seq { tid: 1 };
    let fail = |report: &mut Report, sig: &str, detail: String| report.violation(sig, "expiry", detail, json!({"engine":"udp_live","scenario":"expiry","backend":backend}));
    let mut c = Client::new(IpAddr::V4(Ipv4Addr::new(127, 0, 4, 1)), tracker.v4).unwrap();
    let mut o = Client::new(IpAddr::V4(Ipv4Addr::new(127, 0, 4, 2)), tracker.v4).unwrap();
    let (idc, ido) = match (c.connect(seq.next()), o.connect(seq.next())) {
        (Some(a), Some(b)) => (a, b),
        _ => {
            report.inconclusive("no connect reply");
            return;
        }
    };
    // three peers in one torrent (heap representation) and one alone (inline), seeder and leecher
    let cases = [(hash_n(0x63, 1), 3usize, 0i64), (hash_n(0x63, 2), 1usize, 1i64)];
    let t0 = 100u32;
    aquatic_common::verif::set_clock(Some(t0));
    if !wait_time_refreshed(workers, uring) {
        report.inconclusive("no time refresh observed");
        return;
    }
    for (h, n, left) in cases.iter() {
        for k in 0..*n {
            if ask(&mut c, &announce_bytes(idc, seq.next(), *h, 3000 + k as u16, 2, *left, 0, [0; 4]), 1500).is_none() {
                report.inconclusive("set-up announce not answered");
                return;
            }
        }
    }
    // re-announce of peer 0 of the first torrent at t0+10: fresh deadline t0+10+age
    aquatic_common::verif::set_clock(Some(t0 + 10));
    if !wait_time_refreshed(workers, uring) {
        report.inconclusive("no time refresh observed");
        return;
    }
    let _ = ask(&mut c, &announce_bytes(idc, seq.next(), cases[0].0, 3000, 0, 0, 0, [0; 4]), 1500);
    // (clock, expected (seeders+leechers) of torrent 1, of torrent 2)
    let steps: Vec<(u32, usize, usize)> = vec![(t0 + age - 1, 3, 1), (t0 + age, 1, 0), (t0 + age + 9, 1, 0), (t0 + age + 10, 0, 0)];
    for (clock, want1, want2) in steps {
        aquatic_common::verif::set_clock(Some(clock));
        if !wait_cleans(2) {
            report.inconclusive("no cleaning pass observed (udp.clean_done)");
            return;
        }
        for (h, want) in [(cases[0].0, want1), (cases[1].0, want2)] {
            let got = scrape_one(&mut o, ido, &mut seq, h);
            report.eval();
            if got.map(|x| (x.0 + x.1) as usize) != Some(want) {
                let sig = if got.map(|x| (x.0 + x.1) as usize).unwrap_or(0) < want { "udp.live.peer_expired_early" } else { "udp.live.peer_survived_deadline" };
                fail(report, sig, format!("clock {} (announce at {}, re-announce of one peer at {}, max_peer_age {}): scrape {:?}, expected {} stored peers", clock, t0, t0 + 10, age, got, want));
            }
            report.nontrivial(vcore::fnv(format!("{}/{}/{}", clock - t0, want, backend).as_bytes()));
        }
    }
    report.sample(json!({"max_peer_age": age, "announce_clock": t0, "reannounce_clock": t0 + 10, "cleans_checked_at": [t0 + age - 1, t0 + age, t0 + age + 9, t0 + age + 10], "backend": backend}));
}

// ------------------------------------------------------------------------------------------------
// access (C11 live): list enforced on announce, across reloads and by the next cleaning pass
// ------------------------------------------------------------------------------------------------

fn scenario_access(args: &Args, report: &mut Report) {
    let uring = args.get("backend") == Some("uring");
    let backend = if uring { "uring" } else { "mio" };
    let deny = args.get("mode") == Some("deny");
    let workers = args.usize("workers", 2);
    let tmp = format!("{}/udp_access_{}", args.str("tmpdir", "/verif/evidence/tmp"), std::process::id());
    std::fs::create_dir_all(&tmp).unwrap();
    let list_path = format!("{}/list.txt", tmp);
    let (h1, h2, h3) = (hash_n(0x64, 1), hash_n(0x64, 2), hash_n(0x64, 3));
    let write_list = |hs: &[[u8; 20]]| std::fs::write(&list_path, hs.iter().map(|h| format!("  {}  \r\n\n", vcore::hex(h).to_uppercase())).collect::<String>()).unwrap();
    write_list(&[h1]);
    aquatic_common::verif::set_clock(Some(0));
    let mut config = base_config(&Opts { workers, uring, ..Default::default() });
    config.access_list.mode = if deny { aquatic_common::access_list::AccessListMode::Deny } else { aquatic_common::access_list::AccessListMode::Allow };
    config.access_list.path = list_path.clone().into();
    config.cleaning.max_peer_age = 1_000_000;
    config.cleaning.max_connection_age = 1_000_000;
    let tracker = match start(config) {
        Ok(t) => t,
        Err(e) => {
            report.inconclusive(format!("tracker start: {}", e));
            return;
        }
    };
    let mut seq = Seq { tid: 1 };
    let mut c = Client::new(IpAddr::V4(Ipv4Addr::new(127, 0, 5, 1)), tracker.v4).unwrap();
    let id = match c.connect(seq.next()) {
        Some(i) => i,
        None => {
            report.inconclusive("no connect reply");
            return;
        }
    };
    let fail = |report: &mut Report, sig: &str, detail: String| report.violation(sig, "access", detail, json!({"engine":"udp_live","scenario":"access","backend":backend,"mode": if deny {"deny"} else {"allow"}}));
    // listed(h) under the list in force -> permitted?
    let permitted = |listed: bool| if deny { !listed } else { listed };
    let mut port = 5000u16;
    let mut check_announce = |report: &mut Report, c: &mut Client, seq: &mut Seq, h: [u8; 20], listed: bool, phase: &str| -> bool {
        port += 1;
        let r = ask(c, &announce_bytes(id, seq.next(), h, port, 2, 1, 0, [0; 4]), 1500);
        report.eval();
        let ok = permitted(listed);
        match (&r, ok) {
            (Some(RefResponse::AnnounceV4 { .. }), true) => true,
            (Some(RefResponse::Error { .. }), false) => true,
            (other, _) => {
                let sig = if ok { "udp.live.permitted_announce_refused" } else { "udp.live.forbidden_announce_accepted" };
                fail(report, sig, format!("{}: announce of a {} hash answered with {:?}", phase, if listed { "listed" } else { "unlisted" }, other.as_ref().map(|x| format!("{:?}", x).chars().take(40).collect::<String>())));
                false
            }
        }
    };
    let sigusr1 = || unsafe {
        libc::kill(libc::getpid(), libc::SIGUSR1);
    };
    // phase 1: initial list {h1}
    check_announce(report, &mut c, &mut seq, h1, true, "initial list");
    check_announce(report, &mut c, &mut seq, h2, false, "initial list");
    check_announce(report, &mut c, &mut seq, h3, false, "initial list");
    for (h, listed) in [(h1, true), (h2, false), (h3, false)] {
        let sc = scrape_one(&mut c, id, &mut seq, h);
        report.eval();
        let want = if permitted(listed) { 1 } else { 0 };
        if sc.map(|x| x.0 + x.1) != Some(want) {
            fail(report, "udp.live.refused_announce_created_state", format!("initial list: scrape of a {} hash shows {:?}, expected {} peers", if listed { "listed" } else { "unlisted" }, sc, want));
        }
    }
    report.nontrivial(vcore::fnv(format!("initial/{}/{}", deny, backend).as_bytes()));
    // phase 2: reload {h2}: decisions follow the new list; next clean removes what it forbids, keeps the rest
    write_list(&[h2]);
    let ok0 = counter("access_list.update.ok");
    sigusr1();
    if !vcore::net::wait_until(5000, || counter("access_list.update.ok") > ok0) {
        report.inconclusive("reload not observed (access_list.update.ok)");
        return;
    }
    check_announce(report, &mut c, &mut seq, h2, true, "after reload");
    check_announce(report, &mut c, &mut seq, h1, false, "after reload");
    if !wait_cleans(2) {
        report.inconclusive("no cleaning pass observed");
        return;
    }
    // stored peers now: allow mode: h1 had 1 (now forbidden -> gone), h2 has 1 (just announced)
    //                   deny mode:  h2,h3 had 1 each; h2 now forbidden -> gone; h1 now permitted and just announced -> 1; h3 untouched -> 1
    let expect_after: Vec<([u8; 20], i32)> = if deny { vec![(h1, 1), (h2, 0), (h3, 1)] } else { vec![(h1, 0), (h2, 1), (h3, 0)] };
    for (h, want) in expect_after.iter() {
        let sc = scrape_one(&mut c, id, &mut seq, *h);
        report.eval();
        if sc.map(|x| x.0 + x.1) != Some(*want) {
            let sig = if sc.map(|x| x.0 + x.1).unwrap_or(0) > *want { "udp.live.forbidden_torrent_survived_clean" } else { "udp.live.permitted_torrent_removed_by_clean" };
            fail(report, sig, format!("after reload + cleaning pass: scrape {:?}, expected {} peers", sc, want));
        }
    }
    report.nontrivial(vcore::fnv(format!("reload/{}/{}", deny, backend).as_bytes()));
    // phase 3: failing reloads leave the previous list ({h2}) in force
    for (k, bad) in ["zz not a hash\n", "", "MISSING"].iter().enumerate() {
        if *bad == "MISSING" {
            let _ = std::fs::remove_file(&list_path);
        } else if bad.is_empty() {
            std::fs::write(&list_path, format!("{}\n{}x\n", vcore::hex(&h3), vcore::hex(&h1))).unwrap(); // good line, then a 41-char line
        } else {
            std::fs::write(&list_path, bad).unwrap();
        }
        let e0 = counter("access_list.update.err");
        let o0 = counter("access_list.update.ok");
        sigusr1();
        if !vcore::net::wait_until(5000, || counter("access_list.update.err") > e0 || counter("access_list.update.ok") > o0) {
            report.inconclusive("failing reload not observed");
            return;
        }
        report.eval();
        if counter("access_list.update.ok") > o0 {
            fail(report, "udp.live.malformed_list_accepted", format!("reload #{} of a malformed / missing file succeeded", k));
        }
        check_announce(report, &mut c, &mut seq, h2, true, "after failed reload");
        check_announce(report, &mut c, &mut seq, h1, false, "after failed reload");
        check_announce(report, &mut c, &mut seq, h3, false, "after failed reload");
        report.nontrivial(vcore::fnv(format!("failed_reload/{}/{}/{}", k, deny, backend).as_bytes()));
    }
    report.sample(json!({"mode": if deny {"deny"} else {"allow"}, "backend": backend, "phases": ["initial list {h1}", "reload {h2} + 2 cleans", "3 failing reloads (garbage, bad second line, missing file)"]}));
    let _ = std::fs::remove_dir_all(&tmp);
}

// ------------------------------------------------------------------------------------------------
// buffers (C18): every reply the tracker computes fits its buffers, or the configuration is refused
// ------------------------------------------------------------------------------------------------

fn scenario_buffers(args: &Args, report: &mut Report) {
    let uring = args.get("backend") == Some("uring");
    let backend = if uring { "uring" } else { "mio" };
    let max_peers = args.usize("max_response_peers", 30);
    let max_scrape = args.u64("max_scrape", 70) as u8;
    let v6 = args.flag("v6");
    aquatic_common::verif::set_clock(Some(0));
    let mut config = base_config(&Opts { workers: 1, uring, only_v6: true, ..Default::default() });
    config.protocol.max_response_peers = max_peers;
    config.protocol.max_scrape_torrents = max_scrape;
    config.cleaning.max_peer_age = 1_000_000;
    config.cleaning.max_connection_age = 1_000_000;
    let case = json!({"engine":"udp_live","scenario":"buffers","backend":backend,"max_response_peers":max_peers,"max_scrape":max_scrape,"v6":v6});
    let tracker = match start(config) {
        Ok(t) => t,
        Err(e) => {
            if e.contains("returned during start-up") {
                // configuration refused at start-up: fine by the statement
                report.eval();
                report.count("configuration_refused_at_startup");
                report.nontrivial(vcore::fnv(format!("refused/{}/{}/{}", backend, max_peers, max_scrape).as_bytes()));
                report.nontrivial(vcore::fnv(format!("refused2/{}/{}/{}", backend, max_peers, max_scrape).as_bytes()));
                report.sample(json!({"case": case, "outcome": format!("refused: {}", e)}));
            } else {
                report.inconclusive(format!("tracker start: {}", e));
            }
            return;
        }
    };
    let ip: IpAddr = if v6 { IpAddr::V6(Ipv6Addr::LOCALHOST) } else { IpAddr::V4(Ipv4Addr::new(127, 0, 6, 1)) };
    let target = if v6 { tracker.v6 } else { tracker.v4 };
    let mut c = Client::new(ip, target).unwrap();
    let mut seq = Seq { tid: 1 };
    let id = match c.connect(seq.next()) {
        Some(i) => i,
        None => {
            report.inconclusive("no connect reply");
            return;
        }
    };
    // largest swarm: one socket announcing N ports gives N peers (N a little above the limit)
    let n = max_peers + 6;
    let h = hash_n(0x65, 1);
    let mut lost_setup = 0;
    for k in 0..n {
        // numwant 1 keeps the set-up replies small
        if ask(&mut c, &announce_bytes(id, seq.next(), h, 1 + k as u16, 2, 1, 1, [0; 4]), 1000).is_none() {
            lost_setup += 1;
        }
    }
    if lost_setup > 0 {
        report.inconclusive(format!("{} set-up announces (numwant 1) got no reply", lost_setup));
        return;
    }
    // worst-case accepted announce: numwant = configured maximum
    let resp = ask(&mut c, &announce_bytes(id, seq.next(), h, 65_000, 2, 1, i32::MAX, [0; 4]), 2500);
    report.eval();
    match peers_of(&resp) {
        Some((_, _, got)) => {
            if got.len() + 1 < max_peers.min(n) {
                report.violation("udp.live.reply_cut_short", "buffers", format!("{} peers delivered, limit {} with {} stored", got.len(), max_peers, n), case.clone());
            }
            report.nontrivial(vcore::fnv(format!("announce/{}/{}/{}/{}", backend, max_peers, v6, got.len()).as_bytes()));
        }
        None => {
            let bytes = 20 + max_peers.min(n) * if v6 { 18 } else { 6 };
            report.violation("udp.reply_exceeds_send_buffer", "buffers", format!("accepted configuration max_response_peers={} ({}): the worst-case announce reply ({} bytes) was never delivered", max_peers, if v6 { "ipv6" } else { "ipv4" }, bytes), case.clone());
        }
    }
    // longest accepted scrape: max_scrape_torrents hashes (request 16 + 20 n bytes, reply 8 + 12 n)
    let hashes: Vec<[u8; 20]> = (0..max_scrape as usize).map(|k| hash_n(0x65, k % 3)).collect();
    if !hashes.is_empty() {
        let resp = ask(&mut c, &scrape_bytes(id, seq.next(), &hashes), 2500);
        report.eval();
        match resp {
            Some(RefResponse::Scrape { stats, .. }) => {
                if stats.len() != hashes.len() {
                    report.violation("udp.live.reply_cut_short", "buffers", format!("scrape of {} hashes answered with {} entries", hashes.len(), stats.len()), case.clone());
                }
                report.nontrivial(vcore::fnv(format!("scrape/{}/{}/{}", backend, max_scrape, v6).as_bytes()));
            }
            _ => {
                let req_len = 16 + 20 * hashes.len();
                let sig = if uring && req_len > 468 && 8 + 12 * hashes.len() <= 2048 { "udp.uring.request_exceeds_recv_buffer" } else { "udp.reply_exceeds_send_buffer" };
                report.violation(sig, "buffers", format!("accepted configuration max_scrape_torrents={}: a scrape of {} hashes ({}-byte request, {}-byte reply) was never answered", max_scrape, hashes.len(), req_len, 8 + 12 * hashes.len()), case.clone());
            }
        }
    }
    // scrapes that are LONGER than max_scrape_torrents are accepted too (the parser cuts them to the first max_scrape_torrents
    // hashes, C13): the worst-case accepted scrape request is as long as the datagram buffer allows, not 16 + 20 * limit.
    // (seeded C18c sized the io_uring receive buffers from the limit and silently dropped these.)
    if max_scrape > 0 {
        let mut lens: Vec<usize> = vec![max_scrape as usize + 1, max_scrape as usize + 2, 74, 100, 255, 256, 400];
        lens.retain(|n| *n > max_scrape as usize);
        lens.dedup();
        for n in lens {
            let hashes: Vec<[u8; 20]> = (0..n).map(|k| hash_n(0x65, k % 3)).collect();
            let resp = ask(&mut c, &scrape_bytes(id, seq.next(), &hashes), 2500);
            report.eval();
            report.count("buffers.scrape_longer_than_limit");
            match resp {
                Some(RefResponse::Scrape { stats, .. }) => {
                    if stats.len() != max_scrape as usize {
                        report.violation("udp.live.reply_cut_short", "buffers", format!("scrape of {} hashes (limit {}) answered with {} entries", n, max_scrape, stats.len()), case.clone());
                    }
                    report.nontrivial(vcore::fnv(format!("longscrape/{}/{}/{}", backend, max_scrape, n).as_bytes()));
                }
                _ => {
                    report.violation("udp.request_exceeds_recv_buffer", "buffers", format!("accepted configuration max_scrape_torrents={}: a scrape of {} hashes ({}-byte request; the parser cuts it to the limit) was never answered", max_scrape, n, 16 + 20 * n), case.clone());
                }
            }
        }
    }
    // announce followed by extension bytes up to a typical datagram (uring receive buffer boundary)
    let mut b = announce_bytes(id, seq.next(), h, 65_001, 0, 1, 1, [0; 4]);
    b.extend(std::iter::repeat(0u8).take(args.usize("extension", 300)));
    let resp = ask(&mut c, &b, 1500);
    report.eval();
    if resp.is_none() {
        let sig = if uring && b.len() > 468 { "udp.uring.request_exceeds_recv_buffer" } else { "udp.live.valid_request_never_answered" };
        report.violation(sig, "buffers", format!("announce with {} extension bytes ({} bytes in total) never answered", b.len() - 98, b.len()), case.clone());
    }
    report.sample(json!({"case": case, "swarm": n}));
}

fn main() {
    vcore::init_logger_from_env();
    vudp::live::install_loop_counter();
    let args = Args::parse();
    let scenario = args.str("scenario", "contract");
    let mut report = Report::new(
        "udp_live",
        "in-process udp tracker + loopback clients; scenario-specific offline checker over the recorded datagram log; distinct = (request class, reply class, backend, workers)",
    );
    report.max_samples = 6;
    match scenario.as_str() {
        "contract" => scenario_contract(&args, &mut report),
        "address" => scenario_address(&args, &mut report),
        "window" => scenario_window(&args, &mut report),
        "expiry" => scenario_expiry(&args, &mut report),
        "access" => scenario_access(&args, &mut report),
        "buffers" => scenario_buffers(&args, &mut report),
        other => report.inconclusive(format!("unknown scenario {}", other)),
    }
    let undecided = vudp::live::UNDECIDED.load(std::sync::atomic::Ordering::SeqCst);
    if undecided > 0 {
        report.inconclusive(format!("{} request(s) could not be decided: the tracker never counted them as seen or its workers made no progress within 30 s", undecided));
    }
    report.add("replies_that_arrived_after_the_expected_time(decided by worker progress)", ASK_LATE.load(std::sync::atomic::Ordering::SeqCst));
    report.finish(&args.out());
}
