//! sched engine (C04), monitor 2: free-running stress with delay injection.
//!
//! 6-12 threads hammer 1-3 torrents of the real shared `TorrentMaps` in short
//! rounds (announces with per-thread unique keys, all events, seeder flips;
//! scrapes; cleaning passes with random `now`), the swarm probes inject yields
//! and short sleeps to widen the lock-free gaps. Every round's history (call /
//! return ticks from one atomic clock, recorded at the API boundary) plus a
//! quiescent read-out is checked per torrent with the linearizability checker.
//! A watchdog takes gdb backtraces if no operation completes for 30 s.

use std::collections::{BTreeMap, BTreeSet};
use std::net::{IpAddr, Ipv4Addr, Ipv6Addr};
use std::sync::atomic::{AtomicBool, AtomicU64, Ordering};
use std::sync::{Arc, Barrier, Mutex};
use std::time::{Duration, Instant};

use aquatic_common::access_list::AccessListArcSwap;
use aquatic_common::{SecondsSinceServerStart, ValidUntil};
use aquatic_udp::common::{IpVersionStatistics, StatisticsMessage, SwarmWorkerStatistics};
use aquatic_udp::config::Config;
use aquatic_udp::swarm::TorrentMaps;
use aquatic_udp_protocol::*;
use crossbeam_channel::unbounded;
use rand::rngs::SmallRng;
use rand::SeedableRng;
use serde_json::json;

use vcore::lin::{self, LKind, LOp, Verdict};
use vcore::model::PeerKey;
use vcore::{Args, Report, SplitMix};
use vudp::*;

static TICK: AtomicU64 = AtomicU64::new(1);
static PROGRESS: AtomicU64 = AtomicU64::new(0);
static INJECT: AtomicBool = AtomicBool::new(true);
static INJECTED: AtomicU64 = AtomicU64::new(0);

thread_local! {
    static TL_RNG: std::cell::RefCell<Option<SplitMix>> = const { std::cell::RefCell::new(None) };
}

fn inject(_name: &str) -> u32 {
    if !INJECT.load(Ordering::Relaxed) {
        return 0;
    }
    TL_RNG.with(|r| {
        if let Some(rng) = r.borrow_mut().as_mut() {
            match rng.below(8) {
                0 | 1 => {
                    INJECTED.fetch_add(1, Ordering::Relaxed);
                    std::thread::yield_now()
                }
                2 => {
                    INJECTED.fetch_add(1, Ordering::Relaxed);
                    std::thread::sleep(Duration::from_micros(rng.below(200)))
                }
                3 => {
                    INJECTED.fetch_add(1, Ordering::Relaxed);
                    let spin = rng.below(2000);
                    for _ in 0..spin {
                        std::hint::spin_loop();
                    }
                }
                _ => {}
            }
        }
    });
    0
}

#[derive(Clone, Debug)]
enum SOp {
    Announce { t: usize, key: PeerKey, event: u8, left: i64, deadline: u32, numwant: i32 },
    Scrape { ts: Vec<usize> },
    Clean { now: u32 },
}

#[derive(Clone, Debug)]
struct Rec {
    actor: usize,
    op: SOp,
    call: u64,
    ret: u64,
    seeders: Vec<i32>,
    leechers: Vec<i32>,
    peers: Vec<PeerKey>,
}

fn hash_of(round: u64, t: usize, first: u8) -> [u8; 20] {
    let mut h = [0x55u8; 20];
    h[0] = first;
    h[1] = t as u8;
    h[2..10].copy_from_slice(&round.to_be_bytes());
    h
}

fn ip_of(v6: bool, actor: usize) -> IpAddr {
    if v6 {
        IpAddr::V6(Ipv6Addr::new(0xfd00, 0, 0, 0, 0, 0, 1, 1 + actor as u16))
    } else {
        IpAddr::V4(Ipv4Addr::new(10, 3, 0, 1 + actor as u8))
    }
}

fn main() {
    let args = Args::parse();
    silence_panics();
    let mut report = Report::new(
        "udp_stress",
        "free-running multi-thread stress on the real shared TorrentMaps with delay injection at the lock-gap probes; per-round histories recorded at the API boundary, checked per torrent by the linearizability checker incl. quiescent scrape + observer read-out; \
         non-trivial = per-torrent history with at least one pair of overlapping operations from different threads; distinct = hash of the call/return order pattern",
    );
    let mut seed = args.seed();
    let mut shard = args.u64("shard", 0);
    let mut rounds = args.u64("rounds", 2000);
    let mut budget_s = args.u64("budget_s", 40);
    if let Some(path) = args.get("replay") {
        // free-running schedules cannot be replayed (no rr): re-run the recorded rounds with the recorded seed
        let v: serde_json::Value = serde_json::from_str(&std::fs::read_to_string(path).unwrap()).unwrap();
        seed = v["seed"].as_u64().unwrap_or(seed);
        shard = v["shard"].as_u64().unwrap_or(0);
        rounds = v["round"].as_u64().unwrap_or(100) + 200;
        budget_s = 120;
    }
    if args.flag("no_inject") {
        INJECT.store(false, Ordering::SeqCst);
    }
    aquatic_common::verif::set_probe_handler(Some(Arc::new(inject)));
    let mut meta = SplitMix::new(seed).fork(0xC04 + shard * 7919);

    // watchdog: no completed operation for 30 s => backtraces through gdb
    let stalled = Arc::new(AtomicBool::new(false));
    let done = Arc::new(AtomicBool::new(false));
    // (not under an interpreter: Miri has its own deadlock report, cannot spawn gdb, and is slow enough to look stalled)
    if !args.flag("no_watchdog") {
        let (stalled, done) = (stalled.clone(), done.clone());
        let tmpdir = args.str("tmpdir", "/verif/evidence/tmp");
        std::thread::spawn(move || {
            let mut last = PROGRESS.load(Ordering::SeqCst);
            let mut since = Instant::now();
            loop {
                std::thread::sleep(Duration::from_millis(500));
                if done.load(Ordering::SeqCst) {
                    return;
                }
                let p = PROGRESS.load(Ordering::SeqCst);
                if p != last {
                    last = p;
                    since = Instant::now();
                } else if since.elapsed() > Duration::from_secs(30) {
                    let out = format!("{}/udp_stress_stall_{}.txt", tmpdir, std::process::id());
                    let _ = std::process::Command::new("gdb").args(["-batch", "-p", &std::process::id().to_string(), "-ex", "thread apply all bt 14"]).stdout(std::fs::File::create(&out).unwrap()).stderr(std::process::Stdio::null()).status();
                    stalled.store(true, Ordering::SeqCst);
                    let text = std::fs::read_to_string(&out).unwrap_or_default();
                    let in_lock = text.matches("parking_lot").count();
                    let verdict = if in_lock >= 2 { "DEADLOCK" } else { "STALL" };
                    // the workload threads never return: write the result from here
                    let mut r = Report::new("udp_stress", "watchdog");
                    r.evaluations = PROGRESS.load(Ordering::SeqCst);
                    if in_lock >= 2 {
                        r.violation("udp.stress.deadlock", "deadlock", format!("no operation completed for 30 s; {} frames inside parking_lot lock slow paths; backtraces in {}", in_lock, out), json!({"engine":"udp_stress","backtraces":out,"seed":0}));
                    } else {
                        r.inconclusive(format!("{}: no operation completed for 30 s but backtraces ({}) do not show >= 2 threads in lock slow paths", verdict, out));
                    }
                    let outp = std::env::args().skip_while(|a| a != "--out").nth(1).unwrap_or("/dev/stdout".into());
                    r.finish(&outp);
                }
            }
        });
    }

    let mut budget_exhausted = 0u64;
    let mut ops_total = 0u64;
    let mut round_no = 0u64;
    while round_no < rounds && report.started.elapsed().as_secs() < budget_s && report.num_violations() < 5 {
        round_no += 1;
        let n_threads = 6 + meta.usize(7);
        let n_torrents = 1 + meta.usize(3);
        let v6 = meta.chance(1, 3);
        let first_bytes: Vec<u8> = (0..n_torrents).map(|i| if meta.chance(1, 2) { 9 } else { 9 + 16 * i as u8 + meta.below(3) as u8 }).collect();
        let shape = meta.below(6);
        let maps = TorrentMaps::default();
        let mut config = Config::default();
        config.protocol.max_response_peers = *meta.pick(&[1usize, 2, 4, 50]);
        // a quarter of the rounds: torrent 0 is on a Deny-mode access list (installed after the set-up, as after a
        // reload), so every cleaning pass removes it whatever its deadlines while announces and scrapes of it go on
        let deny_round = meta.chance(1, 4);
        if deny_round {
            config.access_list.mode = aquatic_common::access_list::AccessListMode::Deny;
        }
        let (tx, rx) = unbounded::<StatisticsMessage>();
        let stats: aquatic_udp::common::CachePaddedArc<IpVersionStatistics<SwarmWorkerStatistics>> = Default::default();
        let access = Arc::new(AccessListArcSwap::default());
        // sequential set-up: some peers that are already expired / about to expire
        let mut init: Vec<BTreeMap<PeerKey, (bool, u64)>> = vec![BTreeMap::new(); n_torrents];
        let mut rng0 = SmallRng::seed_from_u64(meta.next());
        for t in 0..n_torrents {
            let n_pre = if shape == 1 { 0 } else { meta.usize(4) };
            for j in 0..n_pre {
                let key = PeerKey { ip: ip_of(v6, 100 + j), port: 7000 + j as u16 };
                let deadline = *meta.pick(&[3u32, 5, 8, 50]);
                let seeder = meta.chance(1, 2);
                let req = announce_request(hash_of(round_no, t, first_bytes[t]), [1; 20], key.port, 2, if seeder { 0 } else { 1 }, 0, 0, 0);
                maps.announce(&config, &tx, &mut rng0, &req, canonical_src(key.ip, 1), ValidUntil::new_raw(SecondsSinceServerStart::new_raw(deadline)));
                init[t].insert(key, (seeder, deadline as u64));
            }
        }
        if deny_round {
            let mut l = aquatic_common::access_list::AccessList::default();
            l.insert_from_line(&vcore::hex(&hash_of(round_no, 0, first_bytes[0]))).unwrap();
            access.store(Arc::new(l));
            report.count("deny_rounds");
        }
        // programs
        let mut programs: Vec<Vec<SOp>> = Vec::new();
        let n_cleaners = match shape {
            0 => 0,
            5 => 2,
            _ => 1,
        };
        for a in 0..n_threads {
            let mut ops = Vec::new();
            if a < n_cleaners {
                for _ in 0..(1 + meta.usize(3)) {
                    ops.push(SOp::Clean { now: *meta.pick(&[1u32, 4, 6, 9, 10, 60]) });
                }
            } else {
                let k = match shape {
                    1 => 1, // everybody announces the brand-new torrent at once
                    _ => 1 + meta.usize(4),
                };
                for _ in 0..k {
                    let t = if shape == 1 { 0 } else { meta.usize(n_torrents) };
                    if meta.chance(1, 5) && shape != 1 {
                        ops.push(SOp::Scrape { ts: (0..(1 + meta.usize(n_torrents))).map(|_| meta.usize(n_torrents)).collect() });
                    } else {
                        let key = PeerKey { ip: ip_of(v6, a), port: 6000 + meta.below(2) as u16 };
                        let event = if shape == 4 && meta.chance(1, 2) { 3 } else { *meta.pick(&[0u8, 1, 2, 2, 3]) };
                        ops.push(SOp::Announce { t, key, event, left: *meta.pick(&[0i64, 1]), deadline: *meta.pick(&[2u32, 7, 100, 100]), numwant: *meta.pick(&[-1i32, 1, 2, 50]) });
                    }
                }
            }
            programs.push(ops);
        }
        let barrier = Arc::new(Barrier::new(n_threads));
        let records: Arc<Mutex<Vec<Rec>>> = Arc::new(Mutex::new(Vec::new()));
        std::thread::scope(|s| {
            for (a, ops) in programs.iter().enumerate() {
                let (maps, config, tx, stats, access, barrier, records) = (&maps, &config, &tx, &stats, &access, barrier.clone(), records.clone());
                let first_bytes = &first_bytes;
                let tseed = meta.next();
                s.spawn(move || {
                    TL_RNG.with(|r| *r.borrow_mut() = Some(SplitMix::new(tseed)));
                    let mut rng = SmallRng::seed_from_u64(tseed);
                    barrier.wait();
                    for op in ops {
                        let call = TICK.fetch_add(1, Ordering::SeqCst);
                        let mut rec = Rec { actor: a, op: op.clone(), call, ret: 0, seeders: vec![], leechers: vec![], peers: vec![] };
                        match op {
                            SOp::Announce { t, key, event, left, deadline, numwant } => {
                                let req = announce_request(hash_of(round_no, *t, first_bytes[*t]), [2; 20], key.port, *event, *left, *numwant, 0, 0);
                                let r = maps.announce(config, tx, &mut rng, &req, canonical_src(key.ip, 1), ValidUntil::new_raw(SecondsSinceServerStart::new_raw(*deadline)));
                                let d = decode_announce(&r).unwrap();
                                rec.seeders = vec![d.seeders];
                                rec.leechers = vec![d.leechers];
                                rec.peers = d.peers;
                            }
                            SOp::Scrape { ts } => {
                                let req = ScrapeRequest { connection_id: ConnectionId::new(0), transaction_id: TransactionId::new(0), info_hashes: ts.iter().map(|t| InfoHash(hash_of(round_no, *t, first_bytes[*t]))).collect() };
                                let r = maps.scrape(req, canonical_src(ip_of(v6, 250), 1));
                                rec.seeders = r.torrent_stats.iter().map(|x| x.seeders.0.get()).collect();
                                rec.leechers = r.torrent_stats.iter().map(|x| x.leechers.0.get()).collect();
                            }
                            SOp::Clean { now } => {
                                maps.clean_and_update_statistics(config, stats, tx, access, SecondsSinceServerStart::new_raw(*now), false);
                            }
                        }
                        rec.ret = TICK.fetch_add(1, Ordering::SeqCst);
                        PROGRESS.fetch_add(1, Ordering::SeqCst);
                        records.lock().unwrap().push(rec);
                    }
                });
            }
        });
        for _ in rx.try_iter() {}
        // quiescent read-out (injection is harmless here: single thread)
        let recs = records.lock().unwrap().clone();
        ops_total += recs.len() as u64;
        let mut big = config.clone();
        big.protocol.max_response_peers = 100_000;
        for t in 0..n_torrents {
            let h = hash_of(round_no, t, first_bytes[t]);
            let sreq = ScrapeRequest { connection_id: ConnectionId::new(0), transaction_id: TransactionId::new(0), info_hashes: vec![InfoHash(h)] };
            let sr = maps.scrape(sreq, canonical_src(ip_of(v6, 250), 1));
            let fin = (sr.torrent_stats[0].seeders.0.get(), sr.torrent_stats[0].leechers.0.get());
            let oreq = announce_request(h, [3; 20], 9999, 2, 1, i32::MAX, 0, 0);
            let or = maps.announce(&big, &tx, &mut rng0, &oreq, canonical_src(ip_of(v6, 251), 1), ValidUntil::new_raw(SecondsSinceServerStart::new_raw(1_000_000)));
            let members: BTreeSet<PeerKey> = decode_announce(&or).unwrap().peers.into_iter().collect();
            // per-key history
            let mut ops: Vec<LOp> = Vec::new();
            for r in recs.iter() {
                match &r.op {
                    SOp::Announce { t: tt, key, event, left, deadline, numwant } if *tt == t => {
                        let limit = if *numwant <= 0 { config.protocol.max_response_peers } else { (*numwant as usize).min(config.protocol.max_response_peers) };
                        ops.push(LOp { actor: r.actor, call: r.call, ret: r.ret, kind: LKind::Announce { key: *key, stopped: *event == 3, seeder: *left == 0, deadline: *deadline as u64, seeders: r.seeders[0] as usize, leechers: r.leechers[0] as usize, peers: r.peers.clone(), limit } });
                    }
                    SOp::Scrape { ts } => {
                        for (j, tt) in ts.iter().enumerate() {
                            if *tt == t {
                                ops.push(LOp { actor: r.actor, call: r.call, ret: r.ret, kind: LKind::Read { seeders: r.seeders[j] as usize, leechers: r.leechers[j] as usize } });
                            }
                        }
                    }
                    SOp::Clean { now } => {
                        ops.push(LOp { actor: r.actor, call: r.call, ret: r.ret, kind: LKind::Expire { now: *now as u64 } });
                        if deny_round && t == 0 {
                            // the pass also removes the forbidden torrent: a second atomic step of the same pass (phase 2),
                            // concurrent with the expiry step as far as the checker is concerned (see `strict` below)
                            ops.push(LOp { actor: r.actor, call: r.call, ret: r.ret, kind: LKind::Expire { now: u64::MAX } });
                        }
                    }
                    _ => {}
                }
            }
            let end = u64::MAX - 10;
            ops.push(LOp { actor: 999, call: end, ret: end + 1, kind: LKind::Read { seeders: fin.0 as usize, leechers: fin.1 as usize } });
            // the observer's reply pins the exact member set: a non-stopped announce whose reply lists everybody
            ops.push(LOp { actor: 999, call: end + 2, ret: end + 3, kind: LKind::Announce { key: PeerKey { ip: ip_of(v6, 251), port: 9999 }, stopped: false, seeder: false, deadline: 1_000_000, seeders: fin.0 as usize, leechers: fin.1 as usize, peers: members.iter().copied().collect(), limit: 100_000 } });
            report.eval();
            let out = lin::check(&init[t], &ops, None, 3_000_000);
            if deny_round && t == 0 && matches!(out.verdict, Verdict::Linearizable) {
                // would the history also be explained by passes that expire and remove in ONE step?
                let strict: Vec<LOp> = ops.iter().filter(|o| !matches!(o.kind, LKind::Expire { now } if now != u64::MAX) || o.actor == 999).cloned().collect();
                if matches!(lin::check(&init[t], &strict, None, 3_000_000).verdict, Verdict::NotLinearizable) {
                    report.count("observation.forbidden_torrent_cleaned_in_two_visible_steps(expiry,then_removal)");
                }
            }
            // overlap pattern for "distinct" accounting
            let mut evs: Vec<(u64, u8, usize)> = Vec::new();
            for o in ops.iter().filter(|o| o.actor != 999) {
                evs.push((o.call, 0, o.actor));
                evs.push((o.ret, 1, o.actor));
            }
            evs.sort();
            let mut open: BTreeSet<usize> = BTreeSet::new();
            let mut overlap = false;
            let mut pattern = Vec::new();
            // relabel actors by first appearance so that the pattern is about shape, not thread ids
            let mut relabel: BTreeMap<usize, u8> = BTreeMap::new();
            for (_, kind, actor) in evs.iter() {
                let next_label = relabel.len() as u8;
                let l = *relabel.entry(*actor).or_insert(next_label);
                if *kind == 0 {
                    if !open.is_empty() {
                        overlap = true;
                    }
                    open.insert(*actor);
                } else {
                    open.remove(actor);
                }
                pattern.push(l * 2 + kind);
            }
            if overlap {
                report.nontrivial(vcore::fnv(&pattern));
            }
            match out.verdict {
                Verdict::Linearizable => {}
                Verdict::BudgetExhausted => budget_exhausted += 1,
                Verdict::NotLinearizable => {
                    let hist: Vec<String> = ops.iter().map(|o| format!("a{} [{}..{}] {:?}", o.actor, o.call, o.ret, o.kind)).collect();
                    let sig = "udp.stress.not_linearizable";
                    report.violation(sig, "linearizability", format!("round {} torrent {}: no sequential order explains the replies and the quiescent read-out (final scrape {:?}, members {:?})", round_no, t, fin, members), json!({"engine":"udp_stress","seed":seed,"shard":shard,"round":round_no,"initial":format!("{:?}", init[t]),"history":hist}));
                }
            }
            if report.samples.len() < 2 && overlap && ops.len() < 12 {
                report.sample(json!({"round":round_no,"torrent":t,"threads":n_threads,"history":ops.iter().map(|o| format!("a{} [{}..{}] {:?}", o.actor, o.call, o.ret, o.kind)).collect::<Vec<_>>()}));
            }
        }
    }
    done.store(true, Ordering::SeqCst);
    check_lock_order(&mut report, "udp_stress");
    report.add("rounds", round_no);
    report.add("operations", ops_total);
    report.add("checker_budget_exhausted", budget_exhausted);
    report.add("delays_injected", INJECTED.load(Ordering::Relaxed));
    if budget_exhausted > round_no / 2 {
        report.inconclusive(format!("linearizability checker ran out of budget on {} of {} keys", budget_exhausted, round_no));
    }
    report.finish(&args.out());
}
