#!/bin/bash
# usage: try_seeded.sh <seeded dir name> [tier]  -- applies seeded/<name>/patch.diff to /repo, runs the property's check, reverts
name=$1; tier=${2:-quick}
prop=$(python3 -c "import json;print(json.load(open('/verif/seeded/$name/meta.json'))['property'])")
[ -z "$(git -C /repo status --porcelain)" ] || { echo "/repo not clean"; exit 2; }
git -C /repo apply /verif/seeded/$name/patch.diff || { echo APPLYFAIL; exit 2; }
/verif/check $prop $tier > /tmp/chk_$name.log 2>&1; rc=$?
git -C /repo checkout -- .
echo "$name ($prop $tier) rc=$rc"; grep -vE "WARNING conda" /tmp/chk_$name.log | tail -4 | cut -c1-300
